------------------------ MODULE QuantitySketch ------------------------
(* PROTOTYPE (round 0 design sketch, not the framework).                                      *)
(* Transcription of UnitDatabase._MatchQuantities / _DoOperationWithSameQuantity /            *)
(* _DoOperationResultingInNewQuantity over a small model registry, and the C03/C04 properties *)
(* stated independently (dimension vectors, base magnitudes).  Used to size the instances.    *)
EXTENDS Rat, TLC, FiniteSets, SequencesExt, Json

CONSTANTS Depth,        \* number of operator applications
          ExpAware      \* TRUE: matching scales by ratio^exponent (repaired); FALSE: code today

QTs == {"length", "time", "mass"}
CatQT  == [length |-> "length", depth |-> "length", time |-> "time", mass |-> "mass"]
\* unit -> [qt, f] : base = f * x  (scale-only sketch)
UnitTab == [m   |-> [qt |-> "length", f |-> <<1, 1>>],
            cm  |-> [qt |-> "length", f |-> <<1, 100>>],
            km  |-> [qt |-> "length", f |-> <<1000, 1>>],
            s   |-> [qt |-> "time",   f |-> <<1, 1>>],
            min |-> [qt |-> "time",   f |-> <<60, 1>>],
            kg  |-> [qt |-> "mass",   f |-> <<1, 1>>]]
Atoms == { <<"length", "m">>, <<"length", "cm">>, <<"depth", "km">>, <<"depth", "m">>,
           <<"time", "s">>, <<"time", "min">>, <<"mass", "kg">> }

Ent(c, u, e) == [c |-> c, u |-> u, e |-> e]
Ratio(u, v) == RDiv(UnitTab[u].f, UnitTab[v].f)          \* value in u  ->  value in v

EmptyFn == [x \in {} |-> 0]

\* ---- _MatchQuantities ------------------------------------------------------------------
RECURSIVE MatchSide(_, _, _, _, _)
MatchSide(q, i, v, used, acc) ==
  IF i > Len(q) THEN [q |-> acc, v |-> v, used |-> used]
  ELSE LET ent == q[i]
           qt  == CatQT[ent.c]
       IN IF qt \notin DOMAIN used
          THEN MatchSide(q, i + 1, v, (qt :> ent.u) @@ used, Append(acc, ent))
          ELSE LET tgt == used[qt]
                   r   == Ratio(ent.u, tgt)
                   v2  == IF ent.u = tgt THEN v
                          ELSE IF ExpAware THEN RMul(v, RPow(r, ent.e)) ELSE RMul(v, r)
               IN MatchSide(q, i + 1, v2, used, Append(acc, [ent EXCEPT !.u = tgt]))
Match(a, b) ==
  LET l == MatchSide(a.q, 1, a.v, EmptyFn, <<>>)
      r == MatchSide(b.q, 1, b.v, l.used, <<>>)
  IN [q1 |-> l.q, v1 |-> l.v, q2 |-> r.q, v2 |-> r.v]

\* ---- joined exponents -------------------------------------------------------------------
UnitsOf(q) == { q[i].u : i \in 1..Len(q) }
UnitTot(q, u) == FoldSet(LAMBDA i, acc : acc + q[i].e, 0, { i \in 1..Len(q) : q[i].u = u })
Joined(q) == { <<u, UnitTot(q, u)>> : u \in UnitsOf(q) }

\* ---- Multiply / Divide ------------------------------------------------------------------
IdxOf(q, c) == IF \E i \in 1..Len(q) : q[i].c = c THEN CHOOSE i \in 1..Len(q) : q[i].c = c ELSE 0
RECURSIVE Merge(_, _, _, _)
Merge(q1, q2, j, sgn) ==
  IF j > Len(q2) THEN q1
  ELSE LET ent == q2[j]  i == IdxOf(q1, ent.c) IN
       IF i = 0 THEN Merge(Append(q1, [ent EXCEPT !.e = sgn * ent.e]), q2, j + 1, sgn)
       ELSE Merge([q1 EXCEPT ![i].e = @ + sgn * ent.e], q2, j + 1, sgn)
Prune(q) == SelectSeq(q, LAMBDA ent : ent.e # 0 /\ UnitTot(q, ent.u) # 0)
MulDiv(a, b, sgn) ==
  LET m == Match(a, b)
      q == Prune(Merge(m.q1, m.q2, 1, sgn))
      v == IF sgn = 1 THEN RMul(m.v1, m.v2) ELSE RDiv(m.v1, m.v2)
  IN [ok |-> TRUE, val |-> [q |-> q, v |-> v]]

\* ---- Sum / Subtract ---------------------------------------------------------------------
SumSub(a, b, sgn) ==
  IF a.q = b.q THEN [ok |-> TRUE, val |-> [q |-> a.q, v |-> IF sgn = 1 THEN RAdd(a.v, b.v) ELSE RSub(a.v, b.v)]]
  ELSE LET m  == Match(a, b)
           j1 == Joined(m.q1)  j2 == Joined(m.q2)
           v  == IF sgn = 1 THEN RAdd(m.v1, m.v2) ELSE RSub(m.v1, m.v2)
       IN IF j1 = j2 \/ j2 = {} THEN [ok |-> TRUE, val |-> [q |-> m.q1, v |-> v]]
          ELSE IF j1 = {} THEN [ok |-> TRUE, val |-> [q |-> m.q2, v |-> v]]
          ELSE [ok |-> FALSE, exc |-> "UNITS"]

\* ---- the property side: independent abstractions ------------------------------------------
Dim(q) == [t \in QTs |-> FoldSet(LAMBDA i, acc : acc + q[i].e, 0, { i \in 1..Len(q) : CatQT[q[i].c] = t })]
RECURSIVE BaseMagI(_, _, _)
BaseMagI(q, i, v) == IF i > Len(q) THEN v ELSE BaseMagI(q, i + 1, RMul(v, RPow(UnitTab[q[i].u].f, q[i].e)))
BaseMag(x) == BaseMagI(x.q, 1, x.v)
SameUnitsCats(q1, q2) == Len(q1) = Len(q2) /\ \A i \in 1..Len(q1) : q1[i].c = q2[i].c /\ q1[i].e = q2[i].e

\* ---- the machine ---------------------------------------------------------------------------
VARIABLES pool, hist
vars == <<pool, hist>>
Val(a, n) == [q |-> <<Ent(a[1], a[2], 1)>>, v |-> R(n)]
Init == /\ \E a1, a2, a3 \in Atoms : pool = <<Val(a1, 2), Val(a2, 3), Val(a3, 5)>>
        /\ hist = <<>>
Ops == {"Mul", "Div", "Add", "Sub"}
Apply(op, a, b) == CASE op = "Mul" -> MulDiv(a, b, 1) [] op = "Div" -> MulDiv(a, b, -1)
                     [] op = "Add" -> SumSub(a, b, 1) [] op = "Sub" -> SumSub(a, b, -1)
Step(op, i, j) ==
  /\ Len(hist) < Depth
  /\ LET r == Apply(op, pool[i], pool[j]) IN
     /\ pool' = IF r.ok THEN Append(pool, r.val) ELSE pool
     /\ hist' = Append(hist, [op |-> op, i |-> i, j |-> j, out |-> r])
Next == \E op \in Ops, i \in 1..Len(pool), j \in 1..Len(pool) : Step(op, i, j)
Spec == Init /\ [][Next]_vars

MaxExp == 3
InBounds == \A k \in 1..Len(pool) : /\ ~IsBot(pool[k].v)
                                     /\ \A i \in 1..Len(pool[k].q) : pool[k].q[i].e \in -MaxExp..MaxExp
View == pool
Emit == PrintT(<<"TR", ToJson([h |-> hist', p |-> pool'])>>)

\* C04: dimension exponents add, base magnitudes multiply
C04 == \A k \in 1..Len(hist) : hist[k].op \in {"Mul", "Div"} /\ hist[k].out.ok =>
   LET a == pool[hist[k].i]  b == pool[hist[k].j]  r == hist[k].out.val
       sgn == IF hist[k].op = "Mul" THEN 1 ELSE -1
       expect == IF sgn = 1 THEN RMul(BaseMag(a), BaseMag(b)) ELSE RDiv(BaseMag(a), BaseMag(b)) IN
   /\ \A t \in QTs : Dim(r.q)[t] = Dim(a.q)[t] + sgn * Dim(b.q)[t]
   /\ \A i \in 1..Len(r.q) : r.q[i].e # 0
   /\ (IsBot(expect) \/ IsBot(BaseMag(r)) \/ BaseMag(r) = expect)
\* C03: sum/difference physically sound, result in the left operand's units and categories
C03 == \A k \in 1..Len(hist) : hist[k].op \in {"Add", "Sub"} =>
   LET a == pool[hist[k].i]  b == pool[hist[k].j]  out == hist[k].out
       sgn == IF hist[k].op = "Add" THEN 1 ELSE -1 IN
   IF Dim(a.q) = Dim(b.q)
   THEN /\ out.ok
        /\ (a.q # <<>> => SameUnitsCats(out.val.q, a.q) /\ \A i \in 1..Len(a.q) : out.val.q[i].u = a.q[i].u)
        /\ LET expect == IF sgn = 1 THEN RAdd(BaseMag(a), BaseMag(b)) ELSE RSub(BaseMag(a), BaseMag(b)) IN
           IsBot(expect) \/ IsBot(BaseMag(out.val)) \/ BaseMag(out.val) = expect
   ELSE (a.q # <<>> /\ b.q # <<>>) => ~out.ok
========================================================================
