--------------------------- MODULE USMSketch ---------------------------
(* PROTOTYPE (round 0 design sketch, not the framework): UnitSystemManager as a state machine *)
(* (unit_system_manager.py, unit_system.py).  Mapping dicts live in a heap so that aliasing   *)
(* (two systems built from one caller dict) is expressible; Owns = TRUE is the repaired       *)
(* semantics (UnitSystem copies the mapping), Owns = FALSE is the code today.                 *)
EXTENDS Integers, Sequences, FiniteSets, TLC

CONSTANTS Ids, Cats, Units, MaxCalls,
          Owns,          \* UnitSystem copies the caller's mapping
          AtomicRemove   \* RemoveUnitSystem with no current system does not raise after deleting

NONE == "<none>"
Lits == {"L1", "L2"}                     \* caller-side dict objects that can be passed twice
LitInit == [L1 |-> [length |-> "m"], L2 |-> [length |-> "km", time |-> "s"]]

VARIABLES order,      \* Seq(id): registration order of systems
          sysmap,     \* id -> heap address of its mapping
          heap,       \* address -> [category -> unit]   (function with partial domain \subseteq Cats)
          nextaddr,
          current,    \* id or NONE
          template,   \* [set, m]: whether a template is defined, and its mapping
          log,        \* callback log (history variable)
          out, n
vars == <<order, sysmap, heap, nextaddr, current, template, log, out, n>>
View == <<order, sysmap, heap, nextaddr, current, template, out>>

Reg == { order[i] : i \in 1..Len(order) }
MapOf(id) == heap[sysmap[id]]
Covers(m, t) == DOMAIN t \subseteq DOMAIN m

Init == /\ order = <<>> /\ sysmap = [x \in {} |-> 0]
        /\ heap = [a \in {1, 2} |-> IF a = 1 THEN LitInit.L1 ELSE LitInit.L2]   \* literals live at 1, 2
        /\ nextaddr = 3 /\ current = NONE /\ template = [set |-> FALSE, m |-> [x \in {} |-> ""]]
        /\ log = <<>> /\ out = "init" /\ n = 0
LitAddr(l) == IF l = "L1" THEN 1 ELSE 2
Tick == n < MaxCalls /\ n' = n + 1
Rejected(e) == out' = e /\ UNCHANGED <<order, sysmap, heap, nextaddr, current, template, log>>

SetTemplate(l) ==
  /\ Tick
  /\ LET t == heap[LitAddr(l)] IN
     IF \E id \in Reg : ~Covers(MapOf(id), t) THEN Rejected("exc:RUNTIME")
     ELSE template' = [set |-> TRUE, m |-> t] /\ out' = "ok" /\ UNCHANGED <<order, sysmap, heap, nextaddr, current, log>>

\* AddUnitSystem(id, mapping = literal l or "NONE")
AddUnitSystem(id, l) ==
  /\ Tick
  /\ IF id \in Reg THEN Rejected("exc:KEY")
     ELSE IF l # "NONE" /\ template.set /\ ~Covers(heap[LitAddr(l)], template.m) THEN Rejected("exc:KEY")
     ELSE LET fresh == l = "NONE" \/ Owns
              addr  == IF fresh THEN nextaddr ELSE LitAddr(l)
              m     == IF l = "NONE" THEN template.m
                       ELSE heap[LitAddr(l)]
          IN /\ heap' = IF fresh THEN (addr :> m) @@ heap ELSE heap
             /\ nextaddr' = IF fresh THEN nextaddr + 1 ELSE nextaddr
             /\ sysmap' = (id :> addr) @@ sysmap
             /\ order' = Append(order, id)
             /\ current' = IF current = NONE THEN id ELSE current
             /\ log' = IF current = NONE THEN Append(log, <<"cur", id>>) ELSE log
             /\ out' = "ok" /\ UNCHANGED template

Remaining(id) == SelectSeq(order, LAMBDA x : x # id)
RemoveUnitSystem(id) ==
  /\ Tick
  /\ IF id \notin Reg THEN Rejected("exc:KEY")
     ELSE IF current = NONE /\ ~AtomicRemove
          THEN \* code today: deleted, then AssertionError
               /\ order' = Remaining(id) /\ sysmap' = [x \in DOMAIN sysmap \ {id} |-> sysmap[x]]
               /\ out' = "exc:ASSERT" /\ UNCHANGED <<heap, nextaddr, current, template, log>>
          ELSE /\ order' = Remaining(id) /\ sysmap' = [x \in DOMAIN sysmap \ {id} |-> sysmap[x]]
               /\ IF current = id
                  THEN LET nc == IF Remaining(id) = <<>> THEN NONE ELSE Remaining(id)[1] IN
                       current' = nc /\ log' = Append(log, <<"cur", nc>>)
                  ELSE UNCHANGED <<current, log>>
               /\ out' = "ok" /\ UNCHANGED <<heap, nextaddr, template>>

SetCurrent(id) ==
  /\ Tick
  /\ id \in Reg \cup {NONE}
  /\ current' = id /\ log' = Append(log, <<"cur", id>>) /\ out' = "ok"
  /\ UNCHANGED <<order, sysmap, heap, nextaddr, template>>

\* system.SetDefaultUnit(category, unit) on a registered system
SetDefaultUnit(id, c, u) ==
  /\ Tick
  /\ id \in Reg
  /\ heap' = [heap EXCEPT ![sysmap[id]] = (c :> u) @@ @]
  /\ log' = IF current = id THEN Append(log, <<"unit", c, u>>) ELSE log
  /\ out' = "ok" /\ UNCHANGED <<order, sysmap, nextaddr, current, template>>
RemoveCategory(id, c) ==
  /\ Tick
  /\ id \in Reg
  /\ IF c \in DOMAIN MapOf(id)
     THEN /\ heap' = [heap EXCEPT ![sysmap[id]] = [x \in DOMAIN @ \ {c} |-> @[x]]]
          /\ log' = IF current = id THEN Append(log, <<"unit", c, NONE>>) ELSE log
     ELSE UNCHANGED <<heap, log>>
  /\ out' = "ok" /\ UNCHANGED <<order, sysmap, nextaddr, current, template>>

Next == \/ \E l \in Lits : SetTemplate(l)
        \/ \E id \in Ids, l \in Lits \cup {"NONE"} : AddUnitSystem(id, l)
        \/ \E id \in Ids : RemoveUnitSystem(id)
        \/ \E id \in Ids \cup {NONE} : SetCurrent(id)
        \/ \E id \in Ids, c \in Cats, u \in Units : SetDefaultUnit(id, c, u)
        \/ \E id \in Ids, c \in Cats : RemoveCategory(id, c)
Spec == Init /\ [][Next]_vars

\* ---- C17 ------------------------------------------------------------------------------------
CurrentRegistered == current \in Reg \cup {NONE}
IdsUnique == \A i, j \in 1..Len(order) : order[i] = order[j] => i = j
\* every system owns its mapping: no two systems share an address, none shares with a literal
OwnMapping == /\ \A a, b \in Reg : a # b => sysmap[a] # sysmap[b]
              /\ \A a \in Reg : sysmap[a] \notin {1, 2}
\* a rejected call changes nothing
Atomic == [][ (out' \notin {"ok", "init"}) => UNCHANGED <<order, sysmap, heap, current, template>> ]_vars
\* a change of the current system's mapping is always notified; others never are
NotifyExactly == [][ LET cur == current IN
    /\ (cur # NONE /\ cur \in Reg /\ current' = cur /\ cur \in DOMAIN sysmap' /\ heap'[sysmap'[cur]] # heap[sysmap[cur]])
          => (Len(log') = Len(log) + 1 /\ log'[Len(log')][1] = "unit")
    /\ (current' # current) => (Len(log') = Len(log) + 1 /\ log'[Len(log')] = <<"cur", current'>>) ]_vars
========================================================================
