INIT Init
NEXT Next
