---- MODULE MCValidation ----
EXTENDS TLC
CONSTANT InfBecomesNaN
V == INSTANCE ValidationSketch
VARIABLE x
Init == x = 0
Next == UNCHANGED x
ASSUME PrintT(<<"InfBecomesNaN", InfBecomesNaN, "ScalarLaw", V!ScalarLaw, "ArrayLaw", V!ArrayLaw>>)
ASSUME V!ScalarLaw \/ PrintT(<<"witness", V!ScalarWitness>>)
====
