SPECIFICATION Spec
CONSTANTS QTs = {"L", "T"} Us = {"m", "cm", "s"} Cats = {"len", "dep"} MaxCalls = 4 Invalidate = TRUE
          Legacy <- LegacyDef
INVARIANT Well_UnitOneType
INVARIANT Well_BaseFirst
INVARIANT Well_Cats
INVARIANT MemoCoherent
PROPERTY Atomic
VIEW View
CHECK_DEADLOCK FALSE
