---- MODULE MCGrammar ----
(* PROTOTYPE driver: evaluates the grammar sketch on the table exported from the running code *)
EXTENDS Integers, Sequences, FiniteSets, TLC, Json, SequencesExt
T == JsonDeserialize("/tmp/gr/table.json")
TUnits == { T.rows[i].unit : i \in 1..Len(T.rows) }
G == INSTANCE UnitGrammarSketch WITH Units <- TUnits, Legacy <- T.legacy
VARIABLE x
Init == x = 0
Next == UNCHANGED x
NDec == Cardinality({ u \in TUnits : G!Decomposes(u) })
NoCapture == \A u \in TUnits : G!FixLegacy(u) = u
AllLegacy == UNION { G!LegacyOf(u) : u \in TUnits }
Idempotent == \A s \in AllLegacy : G!FixLegacy(G!FixLegacy(s)) = G!FixLegacy(s)
BackToCurrent == \A u \in TUnits : \A s \in G!LegacyOf(u) : G!FixLegacy(s) = u
\* C20 round trip over a basis of atomic symbols not ending in a digit
Basis == {"m", "s", "kg", "K", "mol(lbm)", "cP"}
Exps == {-2, -1, 1, 3}
Lists == { f \in UNION { [1..n -> Basis \X Exps] : n \in 1..3 } : \A i, j \in DOMAIN f : i # j => f[i][1] # f[j][1] }
GB == INSTANCE UnitGrammarSketch WITH Units <- Basis, Legacy <- T.legacy   \* the reader knows the atoms
RoundTrip(R(_)) == \A f \in Lists : GB!Recovered(R(f)) = GB!AsSet(f)
Witness(R(_)) == CHOOSE f \in Lists : GB!Recovered(R(f)) # GB!AsSet(f)
ASSUME PrintT(<<"NDec", NDec, "legacy spellings", Cardinality(AllLegacy)>>)
ASSUME PrintT(<<"NoCapture", NoCapture, "Idempotent", Idempotent, "BackToCurrent", BackToCurrent>>)
ASSUME PrintT(<<"lists", Cardinality(Lists), "RoundTrip(spec)", RoundTrip(G!Render), "RoundTrip(today)", RoundTrip(G!RenderToday)>>)
ASSUME PrintT(<<"witness today", Witness(G!RenderToday), G!RenderToday(Witness(G!RenderToday))>>)
ASSUME PrintT(<<G!Parse("m3"), G!Parse("Mm3/d"), G!Render(<<<<"m",1>>,<<"s",-1>>,<<"kg",-1>>>>), G!RenderToday(<<<<"m",1>>,<<"s",-1>>,<<"kg",-1>>>>)>>)
====
