-------------------------- MODULE RegistrySketch --------------------------
(* PROTOTYPE (round 0 design sketch, not the framework): UnitDatabase registration as a state *)
(* machine — AddUnit / AddUnitBase / AddCategory (all parameters, checks in the code's order, *)
(* unit_database.py:385-579, 743-817) and CheckCategoryUnit with its memo (666-697).          *)
(* Invalidate = TRUE is the repaired semantics (registrations clear the memo).                *)
EXTENDS Integers, Sequences, SequencesExt, FiniteSets, TLC

CONSTANTS QTs, Us, Cats, MaxCalls, Invalidate,
          Legacy            \* sequence of <<legacy, current>>
NONE == "<none>"
LegacyDef == << <<"kilom", "km">> >>     \* cfg files cannot express tuples: Legacy <- LegacyDef
NoNum == [has |-> FALSE, v |-> 0]
Num(x) == [has |-> TRUE, v |-> x]
NoSeq == [has |-> FALSE, s |-> <<>>]
SomeSeq(s) == [has |-> TRUE, s |-> s]
Empty == [x \in {} |-> 0]

VARIABLES order,   \* qt -> Seq(unit), first = base by convention
          units,   \* unit -> [qt, ident, base]   ident: both closures are the identity pair
          cats,    \* cat -> CategoryInfo record
          memo,    \* <<cat, unit>> -> BOOLEAN
          based,   \* history: quantity types for which AddUnitBase succeeded
          out, n
vars == <<order, units, cats, memo, based, out, n>>
regvars == <<order, units, cats>>
View == <<order, units, cats, memo, based, out>>

FixLegacy(u) == FoldLeft(LAMBDA acc, p : ReplaceAllSubSeqs(p[2], p[1], acc), u, Legacy)
UnitsOf(qt) == IF qt \in DOMAIN order THEN order[qt] ELSE <<>>
UnitSet(qt) == { UnitsOf(qt)[i] : i \in 1..Len(UnitsOf(qt)) }

Init == order = Empty /\ units = Empty /\ cats = Empty /\ memo = Empty /\ based = {} /\ out = "init" /\ n = 0
Tick == n < MaxCalls /\ n' = n + 1
Reject(e) == out' = e /\ UNCHANGED <<order, units, cats, memo, based>>
Flush == memo' = IF Invalidate THEN Empty ELSE memo

AddUnit(qt, u, base) ==
  /\ Tick
  /\ IF u \in DOMAIN units THEN Reject("exc:RUNTIME")
     ELSE /\ units' = (u :> [qt |-> qt, ident |-> base]) @@ units
          /\ order' = (qt :> (IF base THEN <<u>> \o UnitsOf(qt) ELSE Append(UnitsOf(qt), u))) @@ order
          /\ based' = IF base THEN based \cup {qt} ELSE based
          /\ Flush /\ out' = "ok" /\ UNCHANGED cats

\* ---- AddCategory: returns [exc] or [info] ------------------------------------------------------
\* a = [c, qt, valid, override, du, dv, min, max, minx, maxx, from]
RECURSIVE FixValid(_, _, _, _)
\* walks valid units: legacy-fix each, first invalid one -> <<FALSE, ...>>
FixValid(vs, i, qunits, acc) ==
  IF i > Len(vs) THEN [ok |-> TRUE, s |-> acc]
  ELSE LET f == FixLegacy(vs[i]) IN
       IF f \in qunits THEN FixValid(vs, i + 1, qunits, Append(acc, f)) ELSE [ok |-> FALSE, s |-> acc]
CatResult(a) ==
  IF a.from # NONE /\ a.qt # NONE THEN [exc |-> "exc:VALUE"]
  ELSE IF ~a.override /\ a.c \in DOMAIN cats THEN [exc |-> "exc:UNITS"]
  ELSE IF a.min.has /\ a.max.has /\ a.max.v < a.min.v THEN [exc |-> "exc:VALUE"]
  ELSE IF a.from # NONE /\ a.from \notin DOMAIN cats THEN [exc |-> "exc:UNITS"]
  ELSE LET src   == IF a.from # NONE THEN cats[a.from] ELSE [qt |-> NONE]
           qt    == IF a.from # NONE THEN src.qt ELSE a.qt
           valid == IF a.from # NONE /\ ~a.valid.has THEN src.valid ELSE a.valid
           du0   == IF a.from # NONE /\ a.du = NONE THEN src.du ELSE a.du
           dv0   == IF a.from # NONE /\ ~a.dv.has THEN Num(src.dv) ELSE a.dv
           min   == IF a.from # NONE /\ ~a.min.has THEN src.min ELSE a.min
           max   == IF a.from # NONE /\ ~a.max.has THEN src.max ELSE a.max
       IN IF qt = NONE THEN [exc |-> "exc:ASSERT"]
          ELSE IF qt \notin DOMAIN order THEN [exc |-> "exc:UNITS"]      \* GetUnits / GetBaseUnit on unknown type
          ELSE LET fv == IF valid.has THEN FixValid(valid.s, 1, UnitSet(qt), <<>>) ELSE [ok |-> TRUE, s |-> <<>>] IN
               IF ~fv.ok THEN [exc |-> "exc:VALUE"]
               ELSE LET vseq == fv.s
                        base == order[qt][1]
                        du   == IF du0 = NONE
                                THEN (IF vseq # <<>> /\ base \notin { vseq[i] : i \in 1..Len(vseq) } THEN vseq[1] ELSE base)
                                ELSE FixLegacy(du0)
                    IN IF du \notin UnitSet(qt) THEN [exc |-> "exc:VALUE"]
                       ELSE IF ~dv0.has /\ (a.minx \/ a.maxx) THEN [exc |-> "exc:RUNTIME"]
                       ELSE LET dv == IF dv0.has THEN dv0.v ELSE IF min.has THEN min.v ELSE IF max.has THEN max.v ELSE 0
                                lowok  == ~min.has \/ (IF a.minx THEN dv > min.v ELSE dv >= min.v)
                                highok == ~max.has \/ (IF a.maxx THEN dv < max.v ELSE dv <= max.v)
                            IN IF dv0.has /\ ~(lowok /\ highok) THEN [exc |-> "exc:ASSERT"]
                               ELSE [info |-> [qt |-> qt, valid |-> (IF valid.has THEN SomeSeq(vseq) ELSE NoSeq),
                                               du |-> du, dv |-> dv, min |-> min, max |-> max,
                                               minx |-> a.minx, maxx |-> a.maxx]]
AddCategory(a) ==
  /\ Tick
  /\ LET r == CatResult(a) IN
     IF "exc" \in DOMAIN r THEN Reject(r.exc)
     ELSE /\ cats' = (a.c :> r.info) @@ cats
          /\ Flush /\ out' = "ok" /\ UNCHANGED <<order, units, based>>

\* ---- CheckCategoryUnit with memo ------------------------------------------------------------------
ValidNow(c, u) == c \in DOMAIN cats /\ u \in DOMAIN units /\ units[u].qt = cats[c].qt
CheckCategoryUnit(c, u) ==
  /\ Tick
  /\ IF <<c, u>> \in DOMAIN memo
     THEN out' = (IF memo[<<c, u>>] THEN "ok" ELSE "exc:UNITS") /\ UNCHANGED <<order, units, cats, memo, based>>
     ELSE /\ memo' = (<<c, u>> :> ValidNow(c, u)) @@ memo
          /\ out' = (IF ValidNow(c, u) THEN "ok" ELSE "exc:UNITS") /\ UNCHANGED <<order, units, cats, based>>

\* ---- argument pools ------------------------------------------------------------------------------------
CatArgs == { [c |-> c, qt |-> qt, valid |-> v, override |-> o, du |-> du, dv |-> dv, min |-> mn, max |-> mx,
              minx |-> mnx, maxx |-> FALSE, from |-> fr] :
             c \in Cats, qt \in QTs \cup {NONE}, v \in {NoSeq, SomeSeq(<<"cm">>), SomeSeq(<<"kilom", "m">>), SomeSeq(<<"s">>)},
             o \in BOOLEAN, du \in {NONE, "cm", "kilom"}, dv \in {NoNum, Num(1)}, mn \in {NoNum, Num(2)}, mx \in {NoNum, Num(0)},
             mnx \in BOOLEAN, fr \in {NONE} \cup Cats }
\* keep the branching factor in check: at most two optional parameters used per call
Arity(a) == (IF a.valid.has THEN 1 ELSE 0) + (IF a.du # NONE THEN 1 ELSE 0) + (IF a.dv.has THEN 1 ELSE 0)
          + (IF a.min.has THEN 1 ELSE 0) + (IF a.max.has THEN 1 ELSE 0) + (IF a.minx THEN 1 ELSE 0) + (IF a.from # NONE THEN 1 ELSE 0)
SmallCatArgs == { a \in CatArgs : Arity(a) <= 2 }

Next == \/ \E qt \in QTs, u \in Us, b \in BOOLEAN : AddUnit(qt, u, b)
        \/ \E a \in SmallCatArgs : AddCategory(a)
        \/ \E c \in Cats, u \in Us \cup {"kilom"} : CheckCategoryUnit(c, u)
Spec == Init /\ [][Next]_vars

\* ---- C14 well-formedness ------------------------------------------------------------------------------
Well_UnitOneType == /\ \A qt \in DOMAIN order : \A i \in 1..Len(order[qt]) : order[qt][i] \in DOMAIN units /\ units[order[qt][i]].qt = qt
                  /\ \A u \in DOMAIN units : Cardinality({ qt \in DOMAIN order : u \in UnitSet(qt) }) = 1
                  /\ \A qt \in DOMAIN order : \A i, j \in 1..Len(order[qt]) : order[qt][i] = order[qt][j] => i = j
Well_BaseFirst == \A qt \in based : units[order[qt][1]].ident
Well_Cats == \A c \in DOMAIN cats : LET k == cats[c] IN
              /\ k.qt \in DOMAIN order
              /\ k.du \in UnitSet(k.qt)
              /\ (k.valid.has => \A i \in 1..Len(k.valid.s) : k.valid.s[i] \in UnitSet(k.qt))
              /\ (k.min.has => IF k.minx THEN k.dv > k.min.v ELSE k.dv >= k.min.v)
              /\ (k.max.has => IF k.maxx THEN k.dv < k.max.v ELSE k.dv <= k.max.v)
Atomic == [][ (out' \notin {"ok", "init"}) => UNCHANGED regvars ]_vars
MemoCoherent == \A k \in DOMAIN memo : memo[k] = ValidNow(k[1], k[2])
===========================================================================
