INIT Init
NEXT Next
CONSTANT InfBecomesNaN = TRUE
