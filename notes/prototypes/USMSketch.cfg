SPECIFICATION Spec
CONSTANTS Ids = {"a", "b"} Cats = {"length", "time"} Units = {"m", "km"} MaxCalls = 5
          Owns = TRUE AtomicRemove = TRUE
INVARIANT CurrentRegistered
INVARIANT IdsUnique
INVARIANT OwnMapping
PROPERTY Atomic
PROPERTY NotifyExactly
VIEW View
CHECK_DEADLOCK FALSE
