SPECIFICATION Spec
CONSTANTS Depth = 2
          ExpAware = TRUE
INVARIANT C04
INVARIANT C03
CONSTRAINT InBounds
VIEW View
CHECK_DEADLOCK FALSE
