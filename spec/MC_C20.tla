------------------------------ MODULE MC_C20 ------------------------------
(* C20 - derived unit, category and type strings render every factor unambiguously.          *)
(* (1) a theorem of the specified rendering, checked by enumeration: for all lists of up to  *)
(*     MaxF distinct atomic units with exponents -4..4 the string Render produces parses     *)
(*     back (against the atoms the reader knows) to exactly the joined units and exponents;  *)
(*     the rendering without a separator between denominator factors (the pinned tree's      *)
(*     defect F16) is the negative control.                                                  *)
(* (2) trace validation: for every recorded quantity, the strings the code returned equal    *)
(*     Render / MakeStr applied to the composing map the code itself reports, and the unit   *)
(*     string the code returned parses back to the joined composing units.                   *)
EXTENDS QStr, Json, IOUtils
Basis == {"m", "s", "kg", "K", "mol(lbm)", "cP"}
Exps == {-4, -2, -1, 1, 2, 3}
MaxF == 3
Lists == { f \in UNION { [1..n -> Basis \X Exps] : n \in 1..MaxF } : \A i, j \in DOMAIN f : i # j => f[i][1] # f[j][1] }
GB == INSTANCE UnitGrammar WITH Units <- Basis, Legacy <- <<>>
RoundTrip(R(_)) == \A f \in Lists : GB!Recovered(R(f)) = GB!AsSet(f)
ASSUME IOEnv.MODE = "gen" =>
  JsonSerialize(IOEnv.OUT_FILE, [lists |-> Cardinality(Lists), spec_roundtrip |-> RoundTrip(GB!Render),
                                 nosep_roundtrip |-> RoundTrip(GB!RenderNoSep),
                                 witness |-> LET f == CHOOSE f \in Lists : GB!Recovered(GB!RenderNoSep(f)) # GB!AsSet(f) IN GB!RenderNoSep(f)])

Trace == IF IOEnv.MODE = "judge" THEN ndJsonDeserialize(IOEnv.TRACE_FILE) ELSE <<>>
VARIABLE l
Init == l = 0
QOf(ev) == [i \in 1..Len(ev.ents) |-> [c |-> ev.ents[i][1], u |-> ev.ents[i][2], e |-> ev.ents[i][3]]]
InScope(q) == \A p \in JoinedSet(q) : p[2] \in -4..4
Judge(ev) ==
  LET q == QOf(ev) IN
  /\ UnitStr(q) = ev.unit
  /\ CatStr(q) = ev.cat
  /\ QtStr(q) = ev.qt
  /\ NameStr(q) = ev.name
  /\ ev.repr_shows /\ ev.str_shows
  /\ (InScope(q) /\ ev.unit # "") => G!Recovered(ev.unit) = { p \in JoinedSet(q) : p[2] # 0 }
  /\ (ev.unit = "") => { p \in JoinedSet(q) : p[2] # 0 } = {}
Next == /\ l < Len(Trace)
        /\ l' = l + 1
        /\ IF Judge(Trace[l']) THEN TRUE ELSE PrintT(<<"VIOL", ToJson([line |-> l', ev |-> Trace[l']])>>)
=============================================================================
