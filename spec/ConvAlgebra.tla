----------------------------- MODULE ConvAlgebra -----------------------------
(* C01 - unit conversion inside a quantity type as a state machine ("conversion walk").      *)
(* A unit carries two coefficient records: tb (to base,  (A + B x) / (C + D x)) and          *)
(*                                         fb (from base, (A - C y) / (D y - B)),             *)
(* exactly the two closures posc.MakeCustomaryToBase / MakeBaseToCustomary build.            *)
(* UnitDatabase.Convert(u, v, x) = x if u = v, else FromBase(v, ToBase(u, x)).               *)
(*                                                                                           *)
(* State: a table (one quantity type), the current unit and two amounts x, y walked in       *)
(* lock-step; amt0/bmt0 are the base amounts fixed in Init (history variables).              *)
(* Invariants: the amount is conserved along every walk (round trip and path independence   *)
(* at once) and the order of the two amounts never changes (strictly increasing maps).       *)
(*                                                                                           *)
(* MODE = "grid": tables are drawn from a coefficient grid (the lemmas behind C01, and the   *)
(*                negative control: a unit whose two records differ breaks conservation).    *)
(* MODE = "real": tables are the exact-rational rows exported from the running code;         *)
(*                every transition is emitted and replayed through UnitDatabase.Convert.     *)
EXTENDS Rat, TLC, FiniteSets, Json, IOUtils, SequencesExt

Mode == IOEnv.MODE
K(a, b, c, d) == [a |-> a, b |-> b, c |-> c, d |-> d]
Ident == K(Zero, One, One, Zero)

App(k, x)  == RDiv(RAdd(k.a, RMul(k.b, x)), RAdd(k.c, RMul(k.d, x)))     \* to base
InvApp(k, y) == RDiv(RSub(k.a, RMul(k.c, y)), RSub(RMul(k.d, y), k.b))   \* from base
Det(k) == RSub(RMul(k.b, k.c), RMul(k.a, k.d))
Increasing(k) == k.d = Zero /\ RLt(Zero, RMul(k.b, k.c))                   \* d = 0 and b/c > 0

\* ---- tables -------------------------------------------------------------------------------
\* a table is a sequence of [u, tb, fb]; by convention entry 1 is the base unit
Large == IOEnv.GRID = "large"
GA == IF Large THEN {R(-2), Zero, R(3)} ELSE {Zero, R(3)}
GB == IF Large THEN {R(-2), One, R(3), <<1, 2>>} ELSE {R(-2), One, <<1, 2>>}
GC == IF Large THEN {One, R(2), R(-1)} ELSE {One, R(2)}
GD == {Zero, One}
GridK == { K(a, b, c, d) : a \in GA, b \in GB, c \in GC, d \in GD }
GoodK == { k \in GridK : Det(k) # Zero }
Unit(u, tb, fb) == [u |-> u, tb |-> tb, fb |-> fb]
\* BrokenPair = TRUE adds the negative control: the third unit's fb differs from its tb
BrokenPair == IOEnv.BROKEN = "1"
GridTables == { << Unit("base", Ident, Ident), Unit("u1", k1, k1),
                   Unit("u2", k2, IF BrokenPair THEN [k2 EXCEPT !.b = RAdd(@, One)] ELSE k2) >> :
                k1 \in GoodK, k2 \in GoodK }

RealJson == IF Mode = "real" THEN JsonDeserialize(IOEnv.CONV_FILE) ELSE [groups |-> <<>>, starts |-> <<>>]
ToK(q) == K(<<q[1][1], q[1][2]>>, <<q[2][1], q[2][2]>>, <<q[3][1], q[3][2]>>, <<q[4][1], q[4][2]>>)
RealTables == { [i \in 1..Len(RealJson.groups[g].units) |->
                   Unit(RealJson.groups[g].units[i].u, ToK(RealJson.groups[g].units[i].tb),
                        ToK(RealJson.groups[g].units[i].fb))] : g \in 1..Len(RealJson.groups) }
Tables == IF Mode = "real" THEN RealTables ELSE GridTables
Starts == IF Mode = "real" THEN { <<RealJson.starts[i][1], RealJson.starts[i][2]>> : i \in 1..Len(RealJson.starts) }
          ELSE {Zero, One, R(-1), <<5, 2>>, R(-3), <<1, 3>>}

VARIABLES tab, cur, x, y, amt0, bmt0
vars == <<tab, cur, x, y, amt0, bmt0>>

ToBase(t, i, v)   == App(t[i].tb, v)
FromBase(t, i, b) == InvApp(t[i].fb, b)
Convert(t, i, j, v) == IF i = j THEN v ELSE FromBase(t, j, ToBase(t, i, v))

Init == /\ tab \in Tables
        /\ cur \in 1..Len(tab)
        /\ x \in Starts /\ y \in Starts /\ RLt(x, y)
        /\ amt0 = ToBase(tab, cur, x) /\ bmt0 = ToBase(tab, cur, y)
        /\ ~IsBot(amt0) /\ ~IsBot(bmt0)
ConvertTo(j) == /\ cur' = j
                /\ x' = Convert(tab, cur, j, x)
                /\ y' = Convert(tab, cur, j, y)
                /\ UNCHANGED <<tab, amt0, bmt0>>
Next == \E j \in 1..Len(tab) : ConvertTo(j)
Spec == Init /\ [][Next]_vars
Representable == ~IsBot(x) /\ ~IsBot(y)        \* CONSTRAINT: poles / 32-bit overflow end a walk

\* ---- C01 ----------------------------------------------------------------------------------
\* round trip + path independence: whatever walk led here, the base amount is the initial one
Conserved == /\ (~IsBot(x) /\ ~IsBot(ToBase(tab, cur, x))) => ToBase(tab, cur, x) = amt0
             /\ (~IsBot(y) /\ ~IsBot(ToBase(tab, cur, y))) => ToBase(tab, cur, y) = bmt0
\* ... and is what the direct conversion from the base amount gives
PathIndependent == (~IsBot(x) /\ ~IsBot(FromBase(tab, cur, amt0))) => x = FromBase(tab, cur, amt0)
\* the base unit is an identity pair
BaseIdentity == tab[1].tb = Ident /\ tab[1].fb = Ident
\* strictly increasing maps never reorder two amounts
AllIncreasing == \A i \in 1..Len(tab) : Increasing(tab[i].tb) /\ Increasing(tab[i].fb)
OrderKept == (AllIncreasing /\ ~IsBot(x) /\ ~IsBot(y)) =>
               LET c1 == RCmp(x, y)  c2 == RCmp(amt0, bmt0) IN c1 = 2 \/ c2 = 2 \/ c1 = c2   \* 2 = not comparable in 32 bits
\* same unit: the very same value (the shortcut)
SameUnitExact == [][cur' = cur => x' = x /\ y' = y]_vars

\* ---- emission for replay (MODE = "real") ---------------------------------------------------
Emit == IF Mode = "real" /\ ~IsBot(x') /\ cur' # cur
        THEN PrintT(<<"TR", ToJson([u |-> tab[cur].u, v |-> tab[cur'].u, x |-> x, out |-> x',
                                    base |-> tab[1].u])>>)
        ELSE TRUE
===============================================================================
