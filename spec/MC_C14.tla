------------------------------ MODULE MC_C14 ------------------------------
(* C14 on the shipped databases: the registry exported from the running code (TABLE_FILE) is *)
(* turned into the reg record of RegOps and judged by RegOps's own well-formedness            *)
(* predicates; the recorded outcomes of building Scalars from every category, every          *)
(* (category, unit) pair and every unit (TRACE_FILE) are validated as a trace.               *)
EXTENDS Integers, Sequences, FiniteSets, TLC, Json, IOUtils, SequencesExt, FiniteSetsExt, Functions

T == JsonDeserialize(IOEnv.TABLE_FILE)
Strong == IOEnv.STRONG = "1"      \* every quantity type must have an identity base (shipped databases)
Rows == T.rows
NR == Len(Rows)
QTs0 == { Rows[i].qt : i \in 1..NR }
Units0 == { Rows[i].unit : i \in 1..NR }
RowOf == [u \in Units0 |-> CHOOSE i \in 1..NR : Rows[i].unit = u]
\* rows of a quantity type in list order
IdxOf(qt) == { i \in 1..NR : Rows[i].qt = qt }
OrderOf(qt) == LET idx == IdxOf(qt) IN [p \in 1..Cardinality(idx) |-> Rows[CHOOSE i \in idx : Rows[i].pos = p].unit]
CatsJ == T.cats
NC == Len(CatsJ)

Reg == INSTANCE RegOps WITH QTs <- QTs0, Units <- Units0, Cats <- { CatsJ[i].cat : i \in 1..NC },
                            Legacy <- T.legacy, FactorOf <- [u \in Units0 |-> <<1, 1>>]
reg == [order |-> [qt \in QTs0 |-> OrderOf(qt)],
        units |-> [u \in Units0 |-> [qt |-> Rows[RowOf[u]].mapped_qt, ident |-> Rows[RowOf[u]].ident,
                                     dc |-> IF Rows[RowOf[u]].defcat = "" THEN "<none>" ELSE Rows[RowOf[u]].defcat]],
        cats |-> [c \in {} |-> 0]]

\* every symbol is listed once, under the quantity type its own record names
OneType == /\ Cardinality(Units0) = NR                                   \* no symbol listed twice
           /\ T.nunits_mapped = NR                                        \* the unit map has no extra symbols
           /\ \A i \in 1..NR : Rows[i].mapped_qt = Rows[i].qt
           /\ \A qt \in QTs0 : { Rows[i].pos : i \in IdxOf(qt) } = 1..Cardinality(IdxOf(qt))
BaseFirst == \A qt \in QTs0 : \E i \in IdxOf(qt) : Rows[i].pos = 1 /\ Rows[i].ident
BadBase == { qt \in QTs0 : ~\E i \in IdxOf(qt) : Rows[i].pos = 1 /\ Rows[i].ident }
\* categories: existing type, default/valid units of that type, default value inside the limits
CatBad(k) == \/ k.qt \notin QTs0
             \/ k.du \notin Units0 \/ Rows[RowOf[k.du]].qt # k.qt
             \/ \E j \in 1..Len(k.valid) : k.valid[j] \notin Units0 \/ Rows[RowOf[k.valid[j]]].qt # k.qt
             \/ ~k.dv_in_limits
BadCats == { CatsJ[i].cat : i \in { j \in 1..NC : CatBad(CatsJ[j]) } }
\* default categories resolve: a unit's default category exists and has the unit's quantity type
CatQt == [c \in { CatsJ[i].cat : i \in 1..NC } |-> (CHOOSE i \in 1..NC : CatsJ[i].cat = c)]
\* (required where the database defines categories at all)
BadDefCat == IF NC = 0 THEN {} ELSE { Rows[i].unit : i \in { j \in 1..NR : Rows[j].defcat # "" /\
                 (Rows[j].defcat \notin DOMAIN CatQt \/ CatsJ[CatQt[Rows[j].defcat]].qt # Rows[j].qt) } }

ASSUME JsonSerialize(IOEnv.OUT_FILE,
         [onetype |-> OneType /\ Reg!Well_UnitOneType(reg), badbase |-> IF Strong THEN BadBase ELSE {},
          badcats |-> BadCats, baddefcat |-> BadDefCat, nrows |-> NR, ncats |-> NC])

\* ---- recorded build outcomes --------------------------------------------------------------------
Trace == ndJsonDeserialize(IOEnv.TRACE_FILE)
VARIABLE l
Init == l = 0
Judge(ev) ==
  CASE ev.op = "BuildCat"     -> ev.ok /\ ev.valid /\ ev.category = ev.c /\ ev.unit = CatsJ[CatQt[ev.c]].du
    [] ev.op = "BuildCatUnit" -> ev.ok /\ ev.valid /\ ev.category = ev.c /\ ev.unit = ev.u /\ ev.qtype = CatsJ[CatQt[ev.c]].qt
    [] ev.op = "BuildUnit"    -> ev.ok /\ ev.unit = ev.u /\ ev.qtype = Rows[RowOf[ev.u]].qt
    [] OTHER -> FALSE
Next == /\ l < Len(Trace)
        /\ l' = l + 1
        /\ IF Judge(Trace[l']) THEN TRUE ELSE PrintT(<<"VIOL", ToJson([line |-> l', ev |-> Trace[l']])>>)
=============================================================================
