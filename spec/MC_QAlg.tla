------------------------------ MODULE MC_QAlg ------------------------------
(* Model instance of QAlg.tla.  The harness appends the literal constants (Depth, NSlots, Ops, EmitMode, ...) to a copy *)
(* of MC_QAlg.cfg for every run: reading them from the environment (IOEnv) in every state serialises the workers.       *)
EXTENDS QAlg
Build == {"Mul", "Div", "Pow"}
SeedsNone == {}
SeedsMulDiv == {"Mul", "Div", "Pow"}
OpsAll  == {"Mul", "Div", "FloorDiv", "Pow", "Add", "Sub", "Lt", "GetValue"}
OpsSum  == {"Add", "Sub"}
OpsProd == {"Mul", "Div", "FloorDiv", "Pow"}
OpsFail == {"Add", "Sub", "Lt", "GetValue"}
=============================================================================
