------------------------------ MODULE MC_QAlg ------------------------------
(* Model instance of QAlg.tla.  The harness appends the literal constants (Depth, NSlots, Ops, EmitMode, ...) to a copy *)
(* of MC_QAlg.cfg for every run: reading them from the environment (IOEnv) in every state serialises the workers.       *)
EXTENDS QAlg, MC_QAlgDefs
=============================================================================
