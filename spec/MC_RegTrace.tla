---------------------------- MODULE MC_RegTrace ----------------------------
(* Trace validation against the cache-free reference semantics of the unit database          *)
(* (RegOps!Effect, the machine of RegistryRef.tla): every line of TRACE_FILE is one public   *)
(* call recorded on a real UnitDatabase - op, arguments, observed outcome and (optionally)   *)
(* the projected registry after the call.  A line is accepted iff the observed outcome is    *)
(* the reference outcome computed from the model registry alone and the projected registry   *)
(* equals the model registry; the well-formedness predicates of C14 are evaluated on the     *)
(* model registry after every CheckEvery-th line and after the last line of each history.    *)
(* Accepting a history with interleaved queries, failed lookups and registrations therefore  *)
(* shows that no cache was visible in it (C15).  tid separates histories (fresh database).   *)
EXTENDS RegOps, Json, IOUtils, RegTraceData      \* RegTraceData: legacy list and unit factors of the run (generated literal module)
Trace == ndJsonDeserialize(IOEnv.TRACE_FILE)
NoNames == {}
LegacyDef == [i \in 1..Len(LegacyData) |-> <<LegacyData[i][1], LegacyData[i][2]>>]
FactorDef == [u \in DOMAIN FactorData |-> <<FactorData[u][1], FactorData[u][2]>>]
CheckEvery == 200
VARIABLES l, reg, based, tid
vars == <<l, reg, based, tid>>
Init == l = 0 /\ reg = Reg0 /\ based = {} /\ tid = -1

\* arguments as recorded (JSON) -> the records RegOps expects
NumRec(j) == [has |-> j.has, v |-> j.v]
SeqRec(j) == [has |-> j.has, s |-> j.s]
CallOf(ev) ==
  IF ev.op = "AddCategory"
  THEN [op |-> ev.op, a |-> [c |-> ev.a.c, qt |-> ev.a.qt, valid |-> SeqRec(ev.a.valid), override |-> ev.a.override, du |-> ev.a.du,
                             dv |-> NumRec(ev.a.dv), min |-> NumRec(ev.a.min), max |-> NumRec(ev.a.max), minx |-> ev.a.minx,
                             maxx |-> ev.a.maxx, from |-> ev.a.from]]
  ELSE IF ev.op = "Convert" THEN [op |-> ev.op, a |-> [q |-> ev.a.q, u |-> ev.a.u, v |-> ev.a.v, x |-> <<ev.a.x[1], ev.a.x[2]>>]]
  ELSE [op |-> ev.op, a |-> ev.a]
OutcomeAgrees(pred, obs) ==
  /\ pred.k = obs.k
  /\ (pred.k = "ok" => /\ pred.s = obs.s /\ pred.t = obs.t /\ pred.b = obs.b
                       /\ (obs.has_x => Close9(obs.x, pred.x) \in {"yes", "inconclusive"}))
\* projected registry (lists of records) against the model registry
OrderSet(r) == { <<qt, r.order[qt]>> : qt \in DOMAIN r.order }
UnitSetOf(r) == { <<u, r.units[u].qt, r.units[u].ident, r.units[u].dc>> : u \in DOMAIN r.units }
CatSetOf(r) == { <<c, r.cats[c].qt, r.cats[c].valid.has, r.cats[c].valid.s, r.cats[c].du, r.cats[c].dv,
                   r.cats[c].min.has, r.cats[c].min.v, r.cats[c].max.has, r.cats[c].max.v, r.cats[c].minx, r.cats[c].maxx>> : c \in DOMAIN r.cats }
StateAgrees(r, p) ==
  /\ OrderSet(r) = { <<p.order[i][1], p.order[i][2]>> : i \in 1..Len(p.order) }
  /\ UnitSetOf(r) = { <<p.units[i][1], p.units[i][2], p.units[i][3], p.units[i][4]>> : i \in 1..Len(p.units) }
  /\ CatSetOf(r) = { <<p.cats[i][1], p.cats[i][2], p.cats[i][3], p.cats[i][4], p.cats[i][5], p.cats[i][6], p.cats[i][7], p.cats[i][8],
                       p.cats[i][9], p.cats[i][10], p.cats[i][11], p.cats[i][12]>> : i \in 1..Len(p.cats) }
Well(r, b) == Well_UnitOneType(r) /\ Well_BaseFirstIdentity(r, b) /\ Well_Cats(r)
Next ==
  /\ l < Len(Trace)
  /\ l' = l + 1
  /\ LET ev == Trace[l']
         r0 == IF ev.tid # tid THEN Reg0 ELSE reg             \* a new history starts on a fresh database
         b0 == IF ev.tid # tid THEN {} ELSE based
         e == Effect(r0, CallOf(ev))
         b1 == IF ev.op = "Clear" THEN {} ELSE IF ev.op = "AddUnitBase" /\ IsOk(e.out) THEN b0 \cup {ev.a.qt} ELSE b0
         last == l' = Len(Trace) \/ Trace[l' + 1].tid # ev.tid
         ok == /\ OutcomeAgrees(e.out, ev.out)
               /\ (ev.has_state => StateAgrees(e.reg, ev.state))
               /\ ((last \/ l' % CheckEvery = 0) => Well(e.reg, b1))
               /\ (~IsOk(e.out) => e.reg = r0)
     IN /\ reg' = e.reg /\ based' = b1 /\ tid' = ev.tid
        /\ IF ok THEN TRUE
           ELSE PrintT(<<"VIOL", ToJson([line |-> l', tid |-> ev.tid, op |-> ev.op, a |-> ev.a, predicted |-> e.out, observed |-> ev.out,
                                          outcome_agrees |-> OutcomeAgrees(e.out, ev.out),
                                          state_agrees |-> (ev.has_state => StateAgrees(e.reg, ev.state)),
                                          well |-> Well(e.reg, b1)])>>)
=============================================================================
