------------------------------ MODULE MC_C09 ------------------------------
(* C09 - plain numbers act as dimensionless operands and never strip the unit.               *)
(* For a value x with composing map q and amount v and a plain number k the ten operators    *)
(* give: k*x, x*k, x/k, x//k, x+k, k+x, x-k, k-x keep q and apply the operation to the       *)
(* amount; k/x and k//x have the reciprocal map (every exponent negated) and the amount k    *)
(* divided by v.  The prediction does not depend on the Python type of k, on which operand   *)
(* is on the left, or on the container of x - that is the property; the harness instantiates *)
(* every row with int / float / numpy scalars / numpy arrays and Scalar / Array containers.  *)
EXTENDS Rat, Integers, Sequences, FiniteSets, TLC, Json, IOUtils
Ent(c, u, e) == [c |-> c, u |-> u, e |-> e]
Quantities == [simple |-> <<Ent("length", "m", 1)>>, derived |-> <<Ent("length", "m", 1), Ent("time", "s", -1)>>,
               squared |-> <<Ent("length", "cm", 2)>>,
               pure |-> <<Ent("dimensionless", "-", 1)>>,
               captioned |-> <<Ent("Unknown", "<unknown>", 1)>>,
               \* one quantity type held in two units (only an ordered-map request builds it): the eight quantity-keeping operators keep the
               \* map AND the amount's reading in it (no unit matching inside x may rescale the values); k / x may come back in matched units (1/m2 for
               \* 1/(m.cm)) - the harness compares its rows by dimension and base-unit amount
               twounit |-> <<Ent("length", "m", 1), Ent("diameter", "cm", 1)>>]   \* the 'Unknown' quantity type with a caption: "keeps x's quantity" includes the caption          \* a value whose own unit is the dimensionless '-' keeps it
Recip(q) == [i \in 1..Len(q) |-> [q[i] EXCEPT !.e = -q[i].e]]
Ks == {R(3), <<1, 2>>, R(-2), Zero}
Vs == {R(2), R(4), R(-3), <<5, 2>>}
OpsAll == {"k*x", "x*k", "x/k", "x//k", "x+k", "k+x", "x-k", "k-x", "k/x", "k//x"}
Defined(op, k, v) == ~((op \in {"x/k", "x//k"} /\ k = Zero) \/ (op \in {"k/x", "k//x"} /\ v = Zero))
Value(op, k, v) ==
  CASE op \in {"k*x", "x*k"} -> RMul(k, v)
    [] op = "x/k"  -> RDiv(v, k)
    [] op = "x//k" -> RFloor(RDiv(v, k))
    [] op \in {"x+k", "k+x"} -> RAdd(v, k)
    [] op = "x-k"  -> RSub(v, k)
    [] op = "k-x"  -> RSub(k, v)
    [] op = "k/x"  -> RDiv(k, v)
    [] op = "k//x" -> RFloor(RDiv(k, v))
ResultQ(op, q) == IF op \in {"k/x", "k//x"} THEN Recip(q) ELSE q
Rows == { [qsel |-> s, op |-> op, k |-> k, v |-> v, rq |-> ResultQ(op, Quantities[s]), rv |-> Value(op, k, v)] :
          s \in DOMAIN Quantities, op \in OpsAll, k \in Ks, v \in { w \in Vs : TRUE } }
InScope(r) == ~(r.qsel = "twounit" /\ r.op = "k//x")       \* (the floor of a quotient depends on the units the quotient is expressed in)
ASSUME JsonSerialize(IOEnv.OUT_FILE, [rows |-> { r \in Rows : Defined(r.op, r.k, r.v) /\ InScope(r) }, quantities |-> Quantities])
VARIABLE x
Init == x = 0
Next == UNCHANGED x
=============================================================================
