------------------------------ MODULE MC_C02 ------------------------------
(* C02 - all conversion routes agree and keep physical value, category and type.             *)
(* Every event is one (route, category, unit pair) with the measured worst element-wise      *)
(* deviation (parts per 10^12, relative to the magnitudes that entered the conversion) of    *)
(* the route's result from UnitDatabase.Convert on the plain float, and the projected        *)
(* category / quantity type / unit / container kind / length of the re-expressed object.     *)
(*   Route     ppt <= Tol, same length, category and quantity type of the source, target unit *)
(*   OwnUnit   asking for the value in the object's own unit returns the stored value (ppt 0) *)
(*   Default   Scalar(category, unit = u) carries the category default re-expressed in u      *)
EXTENDS Integers, Sequences, TLC, Json, IOUtils
Tol == 1000          \* 1e-9: identities up to rounding (measured: routes are bit-identical, exponent path < 1 ppt)
Trace == ndJsonDeserialize(IOEnv.TRACE_FILE)
VARIABLE l
Init == l = 0
Judge(ev) ==
  CASE ev.op = "Route"   -> /\ ev.ok /\ ev.ppt <= Tol /\ ev.len_ok
                            /\ ev.category = ev.src_category /\ ev.qtype = ev.src_qtype /\ ev.unit = ev.v /\ ev.kind = ev.src_kind
    [] ev.op = "OwnUnit" -> ev.ok /\ ev.ppt = 0
    [] ev.op = "Default" -> ev.ok /\ ev.ppt <= Tol /\ ev.unit = ev.v /\ ev.category = ev.src_category
    [] OTHER -> FALSE
Next == /\ l < Len(Trace)
        /\ l' = l + 1
        /\ IF Judge(Trace[l']) THEN TRUE ELSE PrintT(<<"VIOL", ToJson([line |-> l', ev |-> Trace[l']])>>)
=============================================================================
