------------------------------ MODULE MC_C01 ------------------------------
(* C01, real-table world: judges the records measured on the shipped databases.             *)
(*   Row  - a row of the exported registry: RowRefines is the hypothesis of the ConvAlgebra  *)
(*          lemmas (both closures carry the same record, d = 0, positive slope, closure     *)
(*          behaves as its record, the first unit of a type is an identity pair).           *)
(*   Pair - measurements of an ordered unit pair through UnitDatabase.Convert.              *)
EXTENDS Integers, Sequences, TLC, Json, IOUtils

RoundingPpt == 1000          \* 1e-9 relative: far above float rounding (measured < 1 ppt), far below any structural error
Zeros == {"0.0", "-0.0"}
Neg(s) == SubSeq(s, 1, 1) = "-"

RowRefines(r) ==
  /\ (r.pos = 1 => r.ident)                                   \* base unit first, identity pair
  /\ r.mapped_qt = r.qt                                       \* the symbol maps back to this type
  /\ (r.has_tb /\ r.has_fb) =>
        /\ r.tb = r.fb                                        \* same (a, b, c, d) in both closures, compared as literals
        /\ r.tb[4] \in Zeros                                  \* d = 0: affine
        /\ r.tb[2] \notin Zeros /\ r.tb[3] \notin Zeros       \* b # 0, c # 0: invertible
        /\ Neg(r.tb[2]) = Neg(r.tb[3])                        \* b / c > 0: strictly increasing
        /\ r.behaves                                          \* closures compute their records (probe points, bit-for-bit)
  /\ (r.has_tb = r.has_fb)

PairOK(p) ==
  /\ p.rt_ppt <= RoundingPpt          \* u -> v -> u gives back the value up to rounding
  /\ p.same_exact                     \* u -> u returns the value itself (float, list, tuple, numpy array, exponent-list spelling)
  /\ p.inversions = 0                 \* no two amounts of a sorted list are ever swapped
  /\ p.spans                          \* ... and the extremes stay strictly ordered (the map is not constant)
  /\ p.path_ppt <= RoundingPpt        \* u -> w directly = u -> v -> w
  /\ p.spell_ppt <= RoundingPpt       \* [(u, 1)] -> [(w, 1)] is the conversion u -> w (negative amounts and offsets included)

Trace == ndJsonDeserialize(IOEnv.TRACE_FILE)
VARIABLE l
Init == l = 0
Judge(ev) == CASE ev.op = "Row" -> RowRefines(ev) [] ev.op = "Pair" -> PairOK(ev) [] OTHER -> FALSE
Next == /\ l < Len(Trace)
        /\ l' = l + 1
        /\ IF Judge(Trace[l']) THEN TRUE ELSE PrintT(<<"VIOL", ToJson([line |-> l', ev |-> Trace[l']])>>)
=============================================================================
