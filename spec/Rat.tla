---------------------------- MODULE Rat ----------------------------
(* Exact rationals over TLC 32-bit integers.                                                  *)
(* integers.  A rational is <<n, d>> with d > 0 and gcd(|n|, d) = 1.  Operations that would   *)
(* overflow return BOT instead of letting TLC abort with "Overflow when computing".           *)
EXTENDS Integers, Sequences

MaxInt == 2147483647
BOT    == <<0, 0>>                       \* "not representable" (d = 0 never occurs otherwise)
IsBot(r) == r[2] = 0

Abs(x) == IF x < 0 THEN -x ELSE x
RECURSIVE GCD(_, _)
GCD(a, b) == IF b = 0 THEN a ELSE GCD(b, a % b)

MulOK(a, b) == a = 0 \/ b = 0 \/ Abs(a) <= MaxInt \div Abs(b)
AddOK(a, b) == IF a >= 0 THEN b <= MaxInt - a ELSE b >= (-MaxInt) - a

Norm(n, d) == \* d # 0
  IF n = 0 THEN <<0, 1>>
  ELSE LET s == IF d < 0 THEN -1 ELSE 1
           g == GCD(Abs(n), Abs(d))
       IN <<(s * n) \div g, (s * d) \div g>>

R(n) == <<n, 1>>
Zero == <<0, 1>>
One  == <<1, 1>>

RMul(p, q) ==
  IF IsBot(p) \/ IsBot(q) THEN BOT
  ELSE IF p[1] = 0 \/ q[1] = 0 THEN Zero
  ELSE LET g1 == GCD(Abs(p[1]), q[2])
           g2 == GCD(Abs(q[1]), p[2])
           a == p[1] \div g1   b == q[1] \div g2
           c == p[2] \div g2   d == q[2] \div g1
       IN IF MulOK(a, b) /\ MulOK(c, d) THEN <<a * b, c * d>> ELSE BOT

RInv(q) == IF IsBot(q) \/ q[1] = 0 THEN BOT ELSE IF q[1] < 0 THEN <<-q[2], -q[1]>> ELSE <<q[2], q[1]>>
RDiv(p, q) == RMul(p, RInv(q))
RNeg(p) == IF IsBot(p) THEN BOT ELSE <<-p[1], p[2]>>

RAdd(p, q) ==
  IF IsBot(p) \/ IsBot(q) THEN BOT
  ELSE LET g == GCD(p[2], q[2])
           a == q[2] \div g        \* multiplier for p
           b == p[2] \div g        \* multiplier for q
       IN IF MulOK(p[1], a) /\ MulOK(q[1], b) /\ MulOK(p[2], a)
          THEN LET x == p[1] * a  y == q[1] * b IN
               IF AddOK(x, y) THEN Norm(x + y, p[2] * a) ELSE BOT
          ELSE BOT
RSub(p, q) == RAdd(p, RNeg(q))

\* comparison: -1, 0, 1 or 2 (unknown)
RCmp(p, q) ==
  IF IsBot(p) \/ IsBot(q) THEN 2
  ELSE LET g  == GCD(p[2], q[2])
           qd == q[2] \div g
           pd == p[2] \div g
       IN IF MulOK(p[1], qd) /\ MulOK(q[1], pd)
          THEN LET x == p[1] * qd  y == q[1] * pd IN IF x < y THEN -1 ELSE IF x = y THEN 0 ELSE 1
          ELSE 2
RLt(p, q) == RCmp(p, q) = -1
RLe(p, q) == RCmp(p, q) \in {-1, 0}

RECURSIVE RPowN(_, _)
RPowN(p, e) == IF e = 0 THEN One ELSE RMul(p, RPowN(p, e - 1))
RPow(p, e) == IF e >= 0 THEN RPowN(p, e) ELSE RPowN(RInv(p), -e)

\* floor(p) as an integer rational (Python's // on floats, for exact inputs)
RFloor(p) == IF IsBot(p) THEN BOT
             ELSE LET q == p[1] \div p[2] IN   \* TLA+ \div floors toward -infinity
                  R(q)

(* Nine significant decimal digits of |p/q| at decimal exponent e, by long division.          *)
(* An observed float x is logged as [s, D, e] with |x| = D * 10^(e-8), 10^8 <= D < 10^9.       *)
RECURSIVE Scale10(_, _, _, _)
Scale10(I, r, q, k) ==
  IF k = 0 THEN I
  ELSE IF I > 200000000 THEN -1
  ELSE Scale10(I * 10 + (r * 10) \div q, (r * 10) % q, q, k - 1)
RECURSIVE Pow10(_)
Pow10(k) == IF k = 0 THEN 1 ELSE 10 * Pow10(k - 1)
Digits9(r, e) ==
  LET a == Abs(r[1])  q == r[2] IN
  IF q >= 200000000 THEN -1
  ELSE IF 8 - e >= 0 THEN Scale10(a \div q, a % q, q, 8 - e)
  ELSE IF e - 8 <= 9 THEN (a \div q) \div Pow10(e - 8) ELSE 0
Sign(n) == IF n < 0 THEN -1 ELSE IF n = 0 THEN 0 ELSE 1
\* TRUE / FALSE / "inconclusive" for an observation obs = [s, D, e] against the exact r
Close9(obs, r) ==
  IF IsBot(r) THEN "inconclusive"
  ELSE IF r[1] = 0 THEN (IF obs.D = 0 \/ obs.e <= -10 THEN "yes" ELSE "no")
  ELSE IF obs.D = 0 THEN "no"
  ELSE LET E == Digits9(r, obs.e) IN
       IF E = -1 THEN "inconclusive"
       ELSE IF obs.s = Sign(r[1]) /\ Abs(obs.D - E) <= 2 THEN "yes" ELSE "no"
=====================================================================
