---------------------------- MODULE Validation ----------------------------
(* C12 - limit validation depends only on the physical amount.                                *)
(* CheckValue (_quantity.py) and the Array validation (_array.py: NaN-skipping min/max scan,  *)
(* two checks; tuple-of-tuples branch) are transcribed; the property side is the per-element  *)
(* statement in the category's default unit.  NaN / +inf / -inf are tokens with the IEEE      *)
(* comparison table.  Units: du (default), sc (scaled by 1/8), af (offset 4), rv (6 - x): exact in binary.*)
(* InfBecomesNaN = TRUE is the negative control (the pinned tree's defect F20).               *)
EXTENDS Rat, FiniteSets, TLC, SequencesExt

NAN == <<"nan">>   PINF == <<"pinf">>   NINF == <<"ninf">>
IsNum(x) == x \notin {NAN, PINF, NINF}
\* IEEE order on tokens + rationals: Lt(x, y)
Lt(x, y) == IF x = NAN \/ y = NAN THEN FALSE
            ELSE IF x = y THEN FALSE
            ELSE IF x = NINF \/ y = PINF THEN TRUE
            ELSE IF x = PINF \/ y = NINF THEN FALSE
            ELSE RLt(x, y)
Le(x, y) == IF x = NAN \/ y = NAN THEN FALSE ELSE x = y \/ Lt(x, y)
Gt(x, y) == Lt(y, x)
Ge(x, y) == Le(y, x)

\* units: value_in_default = f * x (+ o) ; InfThroughConv = what a non-identity conversion does to an infinity
CONSTANTS InfBecomesNaN,     \* TRUE: 0*inf in the conversion formula (negative control); FALSE: the code after fix F20
          MaxLen
Units == [du |-> [f |-> <<1, 1>>, o |-> <<0, 1>>, ident |-> TRUE],
          sc |-> [f |-> <<1, 8>>, o |-> <<0, 1>>, ident |-> FALSE],     \* scaled
          af |-> [f |-> <<1, 1>>, o |-> <<4, 1>>, ident |-> FALSE],     \* affine
          rv |-> [f |-> <<-1, 1>>, o |-> <<6, 1>>, ident |-> FALSE]]    \* order-reversing (a depth against an elevation): 6 - x
\* an infinity through a conversion with a negative factor changes its sign
InfThrough(u, x) == IF Units[u].f[1] < 0 THEN (IF x = PINF THEN NINF ELSE PINF) ELSE x
ToDefault(u, x) ==
  IF u = "du" THEN x                                   \* same unit: no conversion at all
  ELSE IF x = NAN THEN NAN
  ELSE IF ~IsNum(x) THEN (IF InfBecomesNaN THEN NAN ELSE InfThrough(u, x))
  ELSE RAdd(RMul(Units[u].f, x), Units[u].o)

NoLim == [has |-> FALSE, v |-> <<0, 1>>]
Lim(n) == [has |-> TRUE, v |-> R(n)]
\* CheckValue: [ok, op, lim]  (TLC refuses to compare a tuple with a string, so no "ok" token)
OK == [ok |-> TRUE, op |-> "", lim |-> <<0, 1>>]
Rej(op, lim) == [ok |-> FALSE, op |-> op, lim |-> lim]
CheckValue(cfg, u, x) ==
  IF ~cfg.min.has /\ ~cfg.max.has THEN OK
  ELSE LET y == ToDefault(u, x) IN
       IF cfg.min.has /\ (IF cfg.minx THEN ~Gt(y, cfg.min.v) ELSE ~Ge(y, cfg.min.v))
       THEN Rej(IF cfg.minx THEN ">" ELSE ">=", cfg.min.v)
       ELSE IF cfg.max.has /\ (IF cfg.maxx THEN ~Lt(y, cfg.max.v) ELSE ~Le(y, cfg.max.v))
       THEN Rej(IF cfg.maxx THEN "<" ELSE "<=", cfg.max.v)
       ELSE OK

\* Array scan as coded: first non-NaN initialises min = max; later values update; then two checks
RECURSIVE Scan(_, _, _, _)
Scan(xs, i, mn, mx) ==
  IF i > Len(xs) THEN <<mn, mx>>
  ELSE IF xs[i] = NAN THEN Scan(xs, i + 1, mn, mx)
  ELSE IF Lt(xs[i], mn) THEN Scan(xs, i + 1, xs[i], mx)
  ELSE IF Gt(xs[i], mx) THEN Scan(xs, i + 1, mn, xs[i])
  ELSE Scan(xs, i + 1, mn, mx)
FirstNum(xs) == IF \E i \in 1..Len(xs) : xs[i] # NAN THEN CHOOSE i \in 1..Len(xs) : xs[i] # NAN /\ \A j \in 1..(i - 1) : xs[j] = NAN ELSE 0
ArrayCheck(cfg, u, xs) ==
  IF (~cfg.min.has /\ ~cfg.max.has) \/ xs = <<>> THEN OK
  ELSE LET k == FirstNum(xs) IN
       IF k = 0 THEN OK
       ELSE LET mm == Scan(xs, k + 1, xs[k], xs[k])
                r1 == CheckValue(cfg, u, mm[1]) IN
            IF ~r1.ok THEN r1 ELSE CheckValue(cfg, u, mm[2])

\* ---- property side: per element, in the default unit, NaN elements skipped ----------------------
Sat(cfg, y) == /\ (cfg.min.has => IF cfg.minx THEN Gt(y, cfg.min.v) ELSE Ge(y, cfg.min.v))
               /\ (cfg.max.has => IF cfg.maxx THEN Lt(y, cfg.max.v) ELSE Le(y, cfg.max.v))
\* the physical amount of x written in u, in the default unit (infinities stay infinite)
Phys(u, x) == IF IsNum(x) THEN RAdd(RMul(Units[u].f, x), Units[u].o) ELSE IF x = NAN THEN x ELSE InfThrough(u, x)
ElementOK(cfg, u, x) == x = NAN \/ Sat(cfg, Phys(u, x))
Violates(cfg, u, x, rep) ==
  LET y == Phys(u, x) IN
  CASE rep.op = ">"  -> ~Gt(y, rep.lim) [] rep.op = ">=" -> ~Ge(y, rep.lim)
    [] rep.op = "<"  -> ~Lt(y, rep.lim) [] rep.op = "<=" -> ~Le(y, rep.lim)

Cfgs == { [min |-> mn, max |-> mx, minx |-> a, maxx |-> b] :
          mn \in {NoLim, Lim(0)}, mx \in {NoLim, Lim(8)}, a \in BOOLEAN, b \in BOOLEAN }
Vals == {NAN, PINF, NINF, R(0), R(8), R(-1), R(9), R(4), R(64), R(-4), R(-32)}
Seqs == UNION { [1..k -> Vals] : k \in 0..MaxLen }

ScalarLaw == \A cfg \in Cfgs, u \in DOMAIN Units, x \in Vals :
   CheckValue(cfg, u, x).ok <=> (IF x = NAN THEN ~cfg.min.has /\ ~cfg.max.has ELSE Sat(cfg, Phys(u, x)))
ArrayLaw == \A cfg \in Cfgs, u \in DOMAIN Units, xs \in Seqs :
   LET r == ArrayCheck(cfg, u, xs) IN
   /\ r.ok <=> \A i \in 1..Len(xs) : ElementOK(cfg, u, xs[i])
   /\ ~r.ok => \E i \in 1..Len(xs) : xs[i] # NAN /\ Violates(cfg, u, xs[i], r)
\* tuple-of-tuples Arrays: every element of every tuple is checked in order (NaN not skipped; generated without NaN)
RECURSIVE FirstBad(_, _, _, _)
FirstBad(cfg, u, xs, i) == IF i > Len(xs) THEN OK
                           ELSE LET r == CheckValue(cfg, u, xs[i]) IN IF r.ok THEN FirstBad(cfg, u, xs, i + 1) ELSE r
TupleLaw == \A cfg \in Cfgs, u \in DOMAIN Units, xs \in { s \in Seqs : \A i \in 1..Len(s) : s[i] # NAN } :
   FirstBad(cfg, u, xs, 1).ok <=> \A i \in 1..Len(xs) : ElementOK(cfg, u, xs[i])
===========================================================================
