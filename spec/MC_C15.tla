------------------------------ MODULE MC_C15 ------------------------------
(* C15 on the real default database: recorded read-only operations validated as a trace.     *)
(*  Pure:       the projected registry digest is the same before and after the operation     *)
(*  WarmFresh:  the outcome on the long-used ("warm") database equals the outcome of the     *)
(*              same operation on a freshly built database                                   *)
EXTENDS Integers, Sequences, TLC, Json, IOUtils
Trace == ndJsonDeserialize(IOEnv.TRACE_FILE)
VARIABLE l
Init == l = 0
Judge(ev) ==
  CASE ev.op = "Pure"      -> ev.pre = ev.post
    [] ev.op = "WarmFresh" -> ev.warm = ev.fresh
    [] OTHER -> FALSE
Next == /\ l < Len(Trace)
        /\ l' = l + 1
        /\ IF Judge(Trace[l']) THEN TRUE ELSE PrintT(<<"VIOL", ToJson([line |-> l', ev |-> Trace[l']])>>)
=============================================================================
