------------------------------ MODULE MC_Judge ------------------------------
(* Trace validation of recorded executions on the real default database (direction B) for    *)
(* the value-level properties.  One event per line of TRACE_FILE; every event carries the    *)
(* call, its arguments and what was observed; the predicates below are the specification.   *)
(*   C05  Reject      a dimensionally incompatible call raised a units/type error and the    *)
(*                    registry digest and the operands' projections are unchanged            *)
(*        Refused     an operation the library does not support at all between values of different dimensions raised something and changed nothing *)
(*   C07  Intern      a repeated request returned the identical object; equal requests give  *)
(*                    equal descriptors and hashes, different requests unequal quantities    *)
(*        Resolves    a category-only request gives the category's default unit, a unit+category request that unit, whatever came before *)
(*        Frozen      a quantity's projection is the same before and after a step            *)
(*        ReadOnly    the mutator raised ReadOnlyError                                       *)
(*   C13  Operand     an operand's projection (container contents included) is unchanged     *)
(*        CopyEq      a copy / deepcopy / CreateCopy() / pickle equals its source            *)
(*   C03  SumAgrees   a sum / difference over two units of the real table equals left + right converted (1e-9), in the left operand's units *)
(*   C04  Agrees      a result has the reference's quantity and its value to 1e-9 *)
(*   C09  Same        the recorded result equals the recorded reference (Python's own float operator on the raw numbers)  *)
(*   C12  CatConsistent  a registered category has a registered default unit among its valid units and builds a valid Scalar in it  *)
(*   C20  SimpleStr   a simple quantity's strings are its registered category, type, unit    *)
EXTENDS Integers, Sequences, TLC, Json, IOUtils
Trace == ndJsonDeserialize(IOEnv.TRACE_FILE)
VARIABLE l
Init == l = 0
UnitsOrType == {"UNITS", "TYPE"}
Judge(ev) ==
  CASE ev.op = "Reject"    -> ev.family \in UnitsOrType /\ ev.reg_pre = ev.reg_post /\ ev.ops_pre = ev.ops_post
    [] ev.op = "Refused"   -> ev.family # "ok" /\ ev.reg_pre = ev.reg_post /\ ev.ops_pre = ev.ops_post      \* two value classes mixed in one sum (Array + Scalar): not supported at all - whatever is raised, no value comes back
    [] ev.op = "Accept"    -> ev.family = "ok"                       \* the exemptions: dimensionless / Unknown operands
    [] ev.op = "Intern"    -> ev.id1 = ev.id2 /\ ev.desc1 = ev.desc2 /\ ev.hash1 = ev.hash2
    [] ev.op = "SameReq"   -> ev.eq /\ ~ev.ne /\ ev.hash1 = ev.hash2 /\ ev.desc1 = ev.desc2
    [] ev.op = "DiffReq"   -> ~ev.eq /\ ev.ne /\ ev.desc1 # ev.desc2
    [] ev.op = "Resolves"  -> ev.unit = ev.want_unit /\ ev.category = ev.want_category /\ ev.unit0 = ev.want_unit0 /\ ev.eq
    [] ev.op = "Frozen"    -> ev.pre = ev.post
    [] ev.op = "ReadOnly"  -> ev.cls = "ReadOnlyError"
    [] ev.op = "QCopy"     -> ev.same_object
    [] ev.op = "QPickle"   -> ev.eq /\ ev.hash1 = ev.hash2 /\ ev.desc1 = ev.desc2
    [] ev.op = "Operand"   -> ev.pre = ev.post
    [] ev.op = "CopyEq"    -> ev.eq /\ ~ev.ne /\ ev.desc1 = ev.desc2
    [] ev.op = "Same"      -> ev.a = ev.b
    [] ev.op = "Agrees"    -> ev.ok /\ ev.same_quantity /\ ev.ppt <= 1000                            \* C04: a ** n against the n-fold product
    [] ev.op = "SumAgrees" -> ev.ok /\ ev.ppt <= 1000 /\ ev.comm_ppt <= 1000 /\ ev.units_kept /\ ev.left_kept      \* C03 on the real table: 1e-9 of the amounts that entered; a + b and b + a (a - b and -(b - a)) are one amount in base units
    [] ev.op = "CatConsistent" -> ev.du_registered /\ ev.du_in_valid /\ ev.scalar_built /\ ev.scalar_valid /\ ev.scalar_unit_is_du /\ ev.check_default
    [] ev.op = "SimpleStr" -> ev.unit = ev.u /\ ev.category = ev.c /\ ev.qtype = ev.qt /\ ev.repr_shows /\ ev.str_shows
    [] OTHER -> FALSE
Next == /\ l < Len(Trace)
        /\ l' = l + 1
        /\ IF Judge(Trace[l']) THEN TRUE ELSE PrintT(<<"VIOL", ToJson([line |-> l', ev |-> Trace[l']])>>)
=============================================================================
