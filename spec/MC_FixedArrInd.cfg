INIT IndInit
NEXT Next
INVARIANT SizeInvariant
INVARIANT CurveInvariant
PROPERTY RejectedChangesNothing
PROPERTY Frozen
PROPERTY ChangingIndexLaw
CHECK_DEADLOCK FALSE
CONSTANTS
  MaxCalls = 1
  EmitMode = "0"
  EmitEvery = 1
  EmitOffset = 0
