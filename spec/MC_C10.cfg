SPECIFICATION Spec
CHECK_DEADLOCK FALSE
CONSTANTS
  BuildOps <- Build
  Depth = 0
  NSlots = 1
  Ops <- OpsSum
  SeedOps <- SeedsMulDiv
  EmitMode = "0"
  EmitEvery = 1
  EmitOffset = 0
