------------------------------ MODULE MC_USMInd ------------------------------
(* C17, for histories of ANY length: an inductive check of USM.tla by TLC.                    *)
(* IndInit enumerates EVERY state of the manager over the constants that satisfies the state  *)
(* invariants (IdsUnique, CurrentRegistered, MapsOfRegistered) - reachable or not: any        *)
(* registration order of any subset of the ids, any mapping (category -> unit, partial) per   *)
(* registered system, any current system or none, no template or any literal as template,     *)
(* any set of tracked objects in any unit of their type, any read-only flags - with empty     *)
(* history variables.  MaxCalls = 1 lets every call be taken once from each of them.  TLC     *)
(* then checks that the three invariants hold again after the step (they are inductive, so    *)
(* they hold after every history, not only after the bounded ones MC_USM explores) and that   *)
(* every action property (Atomic, NotifyExactly, OwnMapping, AddSelectsWhenNone,              *)
(* RemoveSelectsAnother, AcceptCovers, ObjectsFollowSelection, ObjectsOtherwiseUntouched,     *)
(* ReadOnlyIsOnlyAFlag) holds for the step from each such state - i.e. for every step of      *)
(* every behaviour, since every reachable state satisfies the invariants.                     *)
EXTENDS USM
IndIds == {"a", "system 1"}
IndUnits == IF ("IND" \in DOMAIN IOEnv) /\ IOEnv.IND = "small" THEN {"m", "s"} ELSE {"m", "cm", "s", "min"}     \* quick tier: one unit per quantity type
TypeDef == [x \in {"length", "depth", "time", "m", "cm", "km", "s", "min"} |-> IF x \in {"length", "depth", "m", "cm", "km"} THEN "length" ELSE "time"]
FactorDef == [u \in {"m", "cm", "km", "s", "min"} |-> CASE u = "m" -> <<1, 1>> [] u = "cm" -> <<1, 100>> [] u = "km" -> <<1000, 1>> [] u = "s" -> <<1, 1>> [] u = "min" -> <<60, 1>>]
AllOps == {"SetReadOnly", "IsReadOnly", "Register", "DropObject", "SetDefaultUnitRemoved", "SetTemplate", "AddUnitSystem", "RemoveUnitSystem", "SetCurrent", "SetDefaultUnit", "RemoveCategory", "GetNewId",
           "GetCategoryDefaultUnit", "GetCurrentId", "GetUnitSystemById", "GetQuantityDefaultUnit", "ConvertToCurrent", "ConvertScalarToCurrent"}
PartialFns(D, Rg) == UNION { [d -> Rg] : d \in SUBSET D }
Templates == {[set |-> FALSE, m |-> EmptyM]} \cup { [set |-> TRUE, m |-> LitVal(l)] : l \in Lits }
ObjStates == UNION { [d -> { [c |-> cc, u |-> uu] : cc \in Cats, uu \in Units }] : d \in SUBSET DOMAIN ObjPool }
ObjOk(ob) == \A o \in DOMAIN ob : ob[o].c = ObjPool[o].c /\ TypeOf[ob[o].u] = TypeOf[ob[o].c]      \* an object keeps its category; its unit is one of its type
IndInit ==
  \E ord \in SetToAllKPermutations(Ids) :
  \E mp \in [ToSet(ord) -> PartialFns(Cats, Units)] :
  \E cur \in ToSet(ord) \cup {NONE} :
  \E tp \in Templates :
  \E ob \in { x \in ObjStates : ObjOk(x) } :
  \E r \in [ToSet(ord) -> BOOLEAN] :
    /\ TLCSet(2, 1)
    /\ order = ord /\ maps = mp /\ current = cur /\ template = tp /\ objs = ob /\ ro = r
    /\ log = <<>> /\ hist = <<>>
=============================================================================
