-------------------------------- MODULE USM --------------------------------
(* C17 - UnitSystemManager / UnitSystem as a state machine (unit_system_manager.py,          *)
(* unit_system.py).  One action per public call; a call is a record [op, a].                 *)
(*   order    registration order of the systems (ids)                                        *)
(*   maps     id -> units mapping (category -> unit) OWNED by that system                    *)
(*   current  id of the current system or NONE (the null system)                             *)
(*   template [set, m]                                                                       *)
(*   log      the callback log: <<"cur", id>> for on_current, <<"unit", c, u>> for           *)
(*            on_unit_changed (history variable, hidden by VIEW, predicted and compared)     *)
(*   objs     tracked objects (Register): id -> [c, u] of the objects that are registered     *)
(*            and alive; selecting a system (SetCurrent, and the selections made by Add /     *)
(*            Remove) re-expresses every tracked object in that system's default unit of its  *)
(*            category (UpdateObjects); changing a default unit of the current system does    *)
(*            NOT (the code only notifies listeners) - modelled as the code behaves.          *)
(*   ro       id -> the read-only flag of a registered system (AddUnitSystem(read_only=),     *)
(*            SetReadOnly, IsReadOnly): a flag for user interfaces - as the code behaves, it  *)
(*            is not enforced: a read-only system still accepts SetDefaultUnit /              *)
(*            RemoveCategory and, when current, still notifies (ReadOnlyIsOnlyAFlag)          *)
(* Mapping literals (Lits) are caller-side dict objects; the replayer passes the same dict   *)
(* object whenever the model uses the same literal, so aliasing is part of the input space;  *)
(* the specification says every system owns a copy.                                          *)
EXTENDS Integers, Sequences, SequencesExt, FiniteSets, TLC, Json, IOUtils, Rat

CONSTANTS Ids, Cats, Units, MaxCalls, Ops, TypeOf, FactorOf, EmitEvery, EmitOffset, RoVals
NONE == "<none>"
EmptyM == [x \in {} |-> ""]
Lits == {"L1", "L2", "L3"}
LitVal(l) == CASE l = "L1" -> [length |-> "m"]
               [] l = "L2" -> [length |-> "cm", time |-> "s"]
               [] l = "L3" -> [depth |-> "cm", time |-> "min"]

VARIABLES order, maps, current, template, log, hist, objs, ro
vars == <<order, maps, current, template, log, hist, objs, ro>>
\* the objects a client may create and register: category and the unit it is created with
ObjPool == [o1 |-> [c |-> "length", u |-> "m"], o2 |-> [c |-> "time", u |-> "min"]]
EmptyO == [x \in {} |-> [c |-> "", u |-> ""]]
\* UpdateObjects under the selection cur of the mappings mp
Updated(ob, cur, mp) == [o \in DOMAIN ob |-> IF cur # NONE /\ ob[o].c \in DOMAIN mp[cur] THEN [ob[o] EXCEPT !.u = mp[cur][ob[o].c]] ELSE ob[o]]
\* model checking with several workers: the depth is part of the view, so that the bound on the hidden history cuts
\* the same states in every run; emission (one worker, strict BFS) identifies states across depths
View == IF ("EMIT" \in DOMAIN IOEnv) /\ IOEnv.EMIT # "0" THEN <<order, maps, current, template, objs, ro>> ELSE <<<<order, maps, current, template, objs, ro>>, Len(hist)>>

Out(k, t, x) == [k |-> k, t |-> t, x |-> x]
Ok == Out("ok", "", Zero)
Exc(f) == Out(f, "", Zero)
IsOk(o) == o.k = "ok"
Reg == ToSet(order)
Covers(m, t) == DOMAIN t \subseteq DOMAIN m
Remaining(id) == SelectSeq(order, LAMBDA x : x # id)
Drop(f, k) == [x \in DOMAIN f \ {k} |-> f[x]]
CurMap == IF current = NONE THEN EmptyM ELSE maps[current]
DefaultUnit(c) == IF c \in DOMAIN CurMap THEN CurMap[c] ELSE NONE

\* database side (the real default POSC database): conversion inside one quantity type
ConvertOut(c, u, v, x) ==
  IF u = v THEN Out("ok", v, x)
  ELSE IF TypeOf[u] # TypeOf[c] \/ TypeOf[v] # TypeOf[c] THEN Exc("UNITS")
  ELSE Out("ok", v, RDiv(RMul(x, FactorOf[u]), FactorOf[v]))

RECURSIVE NewId(_)
NewId(n) == IF ("system " \o ToString(n)) \in Reg THEN NewId(n + 1) ELSE "system " \o ToString(n)

\* the effect of a call: [out, order, maps, current, template, log]
\* (every selection - cur differs from the current one or the call is SetCurrent - runs UpdateObjects: see Step)
St(o, ord, mp, cur, tp, lg) == [out |-> o, order |-> ord, maps |-> mp, current |-> cur, template |-> tp, log |-> lg, objs |-> objs, ro |-> ro]
Same(o) == St(o, order, maps, current, template, log)
Effect(c) ==
  CASE c.op = "SetTemplate" ->
         LET t == LitVal(c.a.l) IN
         IF \E id \in Reg : ~Covers(maps[id], t) THEN Same(Exc("RUNTIME"))
         ELSE St(Ok, order, maps, current, [set |-> TRUE, m |-> t], log)
    [] c.op = "AddUnitSystem" ->
         IF c.a.id \in Reg THEN Same(Exc("KEY"))
         ELSE IF c.a.l # NONE /\ template.set /\ ~Covers(LitVal(c.a.l), template.m) THEN Same(Exc("KEY"))
         ELSE LET m == IF c.a.l # NONE THEN LitVal(c.a.l) ELSE IF template.set THEN template.m ELSE EmptyM IN
              [St(Ok, Append(order, c.a.id), (c.a.id :> m) @@ maps,
                 IF current = NONE THEN c.a.id ELSE current, template,
                 IF current = NONE THEN Append(log, <<"cur", c.a.id>>) ELSE log) EXCEPT !.ro = (c.a.id :> c.a.ro) @@ ro]
    [] c.op = "RemoveUnitSystem" ->
         IF c.a.id \notin Reg THEN Same(Exc("KEY"))
         ELSE LET rest == Remaining(c.a.id)
                  nc == IF rest = <<>> THEN NONE ELSE rest[1] IN
              [(IF current = c.a.id
                THEN St(Ok, rest, Drop(maps, c.a.id), nc, template, Append(log, <<"cur", nc>>))
                ELSE St(Ok, rest, Drop(maps, c.a.id), current, template, log)) EXCEPT !.ro = Drop(ro, c.a.id)]
    [] c.op = "SetCurrent" ->      \* fires on_current on every call, also when re-selecting
         St(Ok, order, maps, c.a.id, template, Append(log, <<"cur", c.a.id>>))
    [] c.op = "SetDefaultUnit" ->
         St(Ok, order, [maps EXCEPT ![c.a.id] = (c.a.c :> c.a.u) @@ @], current, template,
            IF current = c.a.id THEN Append(log, <<"unit", c.a.c, c.a.u>>) ELSE log)
    [] c.op = "RemoveCategory" ->
         IF c.a.c \in DOMAIN maps[c.a.id]
         THEN St(Ok, order, [maps EXCEPT ![c.a.id] = Drop(@, c.a.c)], current, template,
                 IF current = c.a.id THEN Append(log, <<"unit", c.a.c, NONE>>) ELSE log)
         ELSE Same(Ok)
    \* Register(obj): tracked from now on and brought to the current default unit of its category at once (if there is one);
    \* registering a tracked object again only repeats the update
    [] c.op = "Register" ->
         LET ob == IF c.a.o \in DOMAIN objs THEN objs[c.a.o] ELSE ObjPool[c.a.o] IN
         [Same(Ok) EXCEPT !.objs = (c.a.o :> (IF DefaultUnit(ob.c) # NONE THEN [ob EXCEPT !.u = DefaultUnit(ob.c)] ELSE ob)) @@ objs]
    \* the client drops its last reference: the manager forgets the object (weak references)
    [] c.op = "DropObject" -> [Same(Ok) EXCEPT !.objs = [o \in DOMAIN objs \ {c.a.o} |-> objs[o]]]
    \* the caller still holds the object of a system that was removed (or never added) and changes it: nothing of the manager's is touched,
    \* no listener hears of it
    [] c.op = "SetDefaultUnitRemoved" -> Same(Ok)
    \* the read-only flag: set, read; nothing else is touched and nobody is notified
    [] c.op = "SetReadOnly" -> [Same(Ok) EXCEPT !.ro = [ro EXCEPT ![c.a.id] = c.a.ro]]
    [] c.op = "IsReadOnly" -> Same(Out("ok", IF ro[c.a.id] THEN "true" ELSE "false", Zero))
    [] c.op = "GetNewId" -> Same(Out("ok", NewId(1), Zero))
    [] c.op = "GetCategoryDefaultUnit" -> Same(Out("ok", DefaultUnit(c.a.c), Zero))
    [] c.op = "GetCurrentId" -> Same(Out("ok", current, Zero))
    [] c.op = "GetUnitSystemById" -> Same(IF c.a.id \in Reg THEN Out("ok", c.a.id, Zero) ELSE Exc("VALUE"))
    [] c.op = "GetQuantityDefaultUnit" ->      \* the current default unit of the quantity's category, else the quantity's own unit
         Same(Out("ok", IF DefaultUnit(c.a.c) = NONE THEN c.a.u ELSE DefaultUnit(c.a.c), Zero))
    [] c.op \in {"ConvertToCurrent", "ConvertScalarToCurrent"} ->
         \* t = resulting unit, x = resulting value (the Scalar form also keeps the category: checked by the replayer)
         Same(IF DefaultUnit(c.a.c) = NONE THEN Out("ok", c.a.u, c.a.x) ELSE ConvertOut(c.a.c, c.a.u, DefaultUnit(c.a.c), c.a.x))

Enabled(c) ==
  CASE c.op \in {"SetDefaultUnit", "RemoveCategory", "SetReadOnly", "IsReadOnly"} -> c.a.id \in Reg        \* called on a registered system object
    [] c.op = "SetCurrent" -> c.a.id \in Reg \cup {NONE}                       \* selection selects registered systems or None
    [] c.op = "DropObject" -> c.a.o \in DOMAIN objs
    [] c.op = "SetDefaultUnitRemoved" -> c.a.id \notin Reg
    [] OTHER -> TRUE
Step(c) ==
  /\ Len(hist) < MaxCalls /\ c.op \in Ops /\ Enabled(c)
  /\ LET e == Effect(c) IN
     /\ order' = e.order /\ maps' = e.maps /\ current' = e.current /\ template' = e.template /\ log' = e.log
     /\ objs' = IF IsOk(e.out) /\ (c.op = "SetCurrent" \/ e.current # current) THEN Updated(e.objs, e.current, e.maps) ELSE e.objs
     /\ ro' = e.ro
     /\ hist' = Append(hist, [op |-> c.op, a |-> c.a, out |-> e.out])

Call(op, a) == [op |-> op, a |-> a]
Xs == {One, <<5, 2>>}
SetTemplate      == \E l \in Lits : Step(Call("SetTemplate", [l |-> l]))
AddUnitSystem    == \E id \in Ids, l \in Lits \cup {NONE}, r \in RoVals : Step(Call("AddUnitSystem", [id |-> id, l |-> l, ro |-> r]))
SetReadOnly      == \E id \in Ids, r \in BOOLEAN : Step(Call("SetReadOnly", [id |-> id, ro |-> r]))
IsReadOnly       == \E id \in Ids : Step(Call("IsReadOnly", [id |-> id]))
RemoveUnitSystem == \E id \in Ids : Step(Call("RemoveUnitSystem", [id |-> id]))
SetCurrent       == \E id \in Ids \cup {NONE} : Step(Call("SetCurrent", [id |-> id]))
SetDefaultUnit   == \E id \in Ids, c \in Cats, u \in Units : Step(Call("SetDefaultUnit", [id |-> id, c |-> c, u |-> u]))
RemoveCategory   == \E id \in Ids, c \in Cats : Step(Call("RemoveCategory", [id |-> id, c |-> c]))
Register         == \E o \in DOMAIN ObjPool : Step(Call("Register", [o |-> o]))
DropObject       == \E o \in DOMAIN ObjPool : Step(Call("DropObject", [o |-> o]))
SetDefaultUnitRemoved == \E id \in Ids, c \in Cats, u \in Units : Step(Call("SetDefaultUnitRemoved", [id |-> id, c |-> c, u |-> u]))
GetNewId         == Step(Call("GetNewId", [x |-> 0]))
QCats == Cats \cup {"depth"}       \* a category that is not the default category of its units
GetCategoryDefaultUnit == \E c \in QCats : Step(Call("GetCategoryDefaultUnit", [c |-> c]))
GetCurrentId     == Step(Call("GetCurrentId", [x |-> 0]))
GetUnitSystemById == \E id \in Ids : Step(Call("GetUnitSystemById", [id |-> id]))
GetQuantityDefaultUnit == \E c \in QCats : \E u \in { v \in Units : TypeOf[v] = TypeOf[c] } : Step(Call("GetQuantityDefaultUnit", [c |-> c, u |-> u]))
ConvertToCurrent == \E c \in QCats : \E u \in { v \in Units : TypeOf[v] = TypeOf[c] }, x \in Xs :
                       Step(Call("ConvertToCurrent", [c |-> c, u |-> u, x |-> x]))
ConvertScalarToCurrent == \E c \in QCats : \E u \in { v \in Units : TypeOf[v] = TypeOf[c] }, x \in Xs :
                       Step(Call("ConvertScalarToCurrent", [c |-> c, u |-> u, x |-> x]))
Init == /\ TLCSet(2, 1 + (EmitOffset % 65520)) /\ order = <<>> /\ maps = EmptyM /\ current = NONE
        /\ template = [set |-> FALSE, m |-> EmptyM] /\ log = <<>> /\ hist = <<>> /\ objs = EmptyO /\ ro = [x \in {} |-> FALSE]
Next == SetTemplate \/ AddUnitSystem \/ RemoveUnitSystem \/ SetCurrent \/ SetDefaultUnit \/ RemoveCategory \/ Register \/ DropObject \/ SetDefaultUnitRemoved
        \/ SetReadOnly \/ IsReadOnly
        \/ GetNewId \/ GetCategoryDefaultUnit \/ GetCurrentId \/ GetUnitSystemById \/ GetQuantityDefaultUnit
        \/ ConvertToCurrent \/ ConvertScalarToCurrent
Spec == Init /\ [][Next]_vars

\* ---- emission ----------------------------------------------------------------------------------------
MapsSet(mp) == { [id |-> id, m |-> { [c |-> c, u |-> mp[id][c]] : c \in DOMAIN mp[id] }] : id \in DOMAIN mp }
EmitMode == IF "EMIT" \in DOMAIN IOEnv THEN IOEnv.EMIT ELSE "0"
EmitRec == PrintT(<<"TR", ToJson([h |-> hist', order |-> order', maps |-> MapsSet(maps'), current |-> current',
                                 tset |-> template'.set, tm |-> { [c |-> c, u |-> template'.m[c]] : c \in DOMAIN template'.m },
                                 log |-> log', objs |-> { [o |-> o, c |-> objs'[o].c, u |-> objs'[o].u] : o \in DOMAIN objs' },
                                 ro |-> { [id |-> id, ro |-> ro'[id]] : id \in DOMAIN ro' }])>>)
Emit == CASE EmitMode = "all"    -> EmitRec
          [] EmitMode = "last"   -> (Len(hist') = MaxCalls => EmitRec)      \* -simulate: one line per complete behaviour
          [] EmitMode = "sample" -> /\ TLCSet(2, (TLCGet(2) * 17364) % 65521)     \* multiplicative congruential generator
                                    /\ (TLCGet(2) % EmitEvery = 0 => EmitRec)
          [] EmitMode = "part"   -> /\ TLCSet(2, TLCGet(2) + 1)                      \* partition: process EmitOffset of EmitEvery
                                    /\ (TLCGet(2) % EmitEvery = EmitOffset % EmitEvery => EmitRec)
          [] OTHER -> TRUE

\* ---- C17 -----------------------------------------------------------------------------------------------
IdsUnique == \A i, j \in 1..Len(order) : order[i] = order[j] => i = j
CurrentRegistered == current \in Reg \cup {NONE}
MapsOfRegistered == DOMAIN maps = Reg /\ DOMAIN ro = Reg
CoverTemplate == template.set => \A id \in Reg : Covers(maps[id], template.m)     \* accepted only if covering ...
\* ... maintained by Add/SetTemplate; RemoveCategory on a system may break it later (the code allows that), so
\* the invariant is stated at acceptance time as an action property:
AcceptCovers == [][ LET c == hist'[Len(hist')] IN
                    (c.op = "AddUnitSystem" /\ IsOk(c.out) /\ template.set) => Covers(maps'[c.a.id], template.m) ]_vars
AddSelectsWhenNone == [][ LET c == hist'[Len(hist')] IN
                    (c.op = "AddUnitSystem" /\ IsOk(c.out) /\ current = NONE) => current' = c.a.id ]_vars
RemoveSelectsAnother == [][ LET c == hist'[Len(hist')] IN
                    (c.op = "RemoveUnitSystem" /\ IsOk(c.out) /\ current = c.a.id) =>
                        (current' \in Reg' \cup {NONE} /\ (Reg' # {} => current' # NONE)) ]_vars
Atomic == [][ ~IsOk(hist'[Len(hist')].out) => UNCHANGED <<order, maps, current, template, log, objs, ro>> ]_vars
\* the read-only flag of a system changes only through SetReadOnly on that system (and is born / dies with the system); setting it touches
\* nothing else and notifies nobody; it does not gate anything: NotifyExactly and OwnMapping are stated without it
ReadOnlyIsOnlyAFlag == [][ LET c == hist'[Len(hist')] IN
    /\ \A id \in DOMAIN ro \cap DOMAIN ro' : ro'[id] # ro[id] => (c.op = "SetReadOnly" /\ c.a.id = id) \/ (c.op = "AddUnitSystem" /\ c.a.id = id)
    /\ c.op = "SetReadOnly" => UNCHANGED <<order, maps, current, template, log, objs>> ]_vars
\* tracked objects: whenever a system is selected, every tracked object whose category the system maps is in that unit; an object
\* keeps its category for ever; only selections and registrations touch the units of tracked objects
ObjectsFollowSelection == [][ LET c == hist'[Len(hist')] IN
    (IsOk(c.out) /\ (c.op = "SetCurrent" \/ current' # current) /\ current' # NONE) =>
        \A o \in DOMAIN objs' : objs'[o].c \in DOMAIN maps'[current'] => objs'[o].u = maps'[current'][objs'[o].c] ]_vars
ObjectsOtherwiseUntouched == [][ LET c == hist'[Len(hist')] IN
    /\ \A o \in DOMAIN objs \cap DOMAIN objs' : objs'[o].c = objs[o].c
    /\ (c.op \notin {"SetCurrent", "Register", "DropObject"} /\ current' = current) => objs' = objs ]_vars
\* listeners are notified exactly for changes of the current system and for default-unit changes of the current system
NotifyExactly == [][
    /\ (current' # current) => (Len(log') = Len(log) + 1 /\ log'[Len(log')] = <<"cur", current'>>)
    /\ (current' = current /\ current # NONE /\ current \in DOMAIN maps' /\ maps'[current] # maps[current])
          => (Len(log') = Len(log) + 1 /\ log'[Len(log')][1] = "unit")
    /\ (Len(log') > Len(log) /\ log'[Len(log')][1] = "unit") =>       \* never for a system that is not current
          LET c == hist'[Len(hist')] IN c.op \in {"SetDefaultUnit", "RemoveCategory"} /\ c.a.id = current
    /\ Len(log') <= Len(log) + 1 ]_vars
\* a change through one system changes no other system's mapping
OwnMapping == [][ LET c == hist'[Len(hist')] IN
                  c.op \in {"SetDefaultUnit", "RemoveCategory"} =>
                     \A id \in Reg \ {c.a.id} : maps'[id] = maps[id] ]_vars
=============================================================================
