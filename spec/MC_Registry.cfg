SPECIFICATION Spec
CONSTANTS
  QTs = {"L", "T"}
  Units = {"m", "cm", "Mcf", "s"}
  Cats = {"L", "dep"}
  Legacy <- LegacyDef
  FactorOf <- FactorDef
  MaxCalls <- MaxCallsDef
  Ops <- OpsDef
  Invalidate <- InvalidateDef
  Pool <- PoolDef
  EmitEvery <- EveryDef
  EmitOffset <- OffsetDef
VIEW View
ACTION_CONSTRAINT Emit
INVARIANT Inv_UnitOneType
INVARIANT Inv_BaseFirstIdentity
INVARIANT Inv_Cats
INVARIANT Inv_Buildable
INVARIANT MemoCoherent
INVARIANT ICacheCoherent
PROPERTY Atomic
PROPERTY Pure
PROPERTY RefSpec
CHECK_DEADLOCK FALSE
