------------------------------ MODULE Registry ------------------------------
(* The UnitDatabase as the code implements it: the registry of RegOps plus the two caches    *)
(* the code keeps - memo (= _category_unit_valid, verdicts incl. negative ones) and icache   *)
(* (= quantities_cache, interned Quantity objects by request key).  One action per public    *)
(* call; a call is a record [op, a].  hist records every call with its outcome (history      *)
(* variable, hidden by VIEW) and is what gets replayed into the real code.                   *)
(*                                                                                           *)
(* C14: Well_* invariants + Atomic (a rejected registration changes nothing).                *)
(* C15: Pure (non-registrations leave reg unchanged) + refinement of the cache-free machine  *)
(*      RegistryRef (PROPERTY RefSpec): every outcome equals the outcome computed from the   *)
(*      registry alone.  Invalidate = FALSE is the negative control (pinned tree before F12).*)
EXTENDS RegOps, Json, IOUtils

CONSTANTS MaxCalls,    \* bound on the length of a history
          Ops,         \* enabled operations
          Invalidate,  \* registrations clear both caches (the code after fix F12)
          Pool,        \* "small" | "mid" | "full": size of the AddCategory argument pool
          EmitEvery, EmitOffset

VARIABLES reg, memo, icache, based, hist
vars == <<reg, memo, icache, based, hist>>
\* model checking with several workers: the depth is part of the view, so that the bound on the hidden history cuts
\* the same states in every run; emission (one worker, strict BFS) identifies states across depths
View == IF ("EMIT" \in DOMAIN IOEnv) /\ IOEnv.EMIT # "0" THEN <<reg, memo, icache, based>> ELSE <<<<reg, memo, icache, based>>, Len(hist)>>

\* ---- the code's cached lookups: every operator returns [.., memo, icache] --------------------
\* CheckCategoryUnit(category, unit)
CCU(m, c, u) ==
  IF <<c, u>> \in DOMAIN m THEN [valid |-> m[<<c, u>>], memo |-> m]
  ELSE [valid |-> ValidNow(reg, c, u), memo |-> (<<c, u>> :> ValidNow(reg, c, u)) @@ m]
\* Quantity(category, unit): GetCategoryInfo, CheckCategoryUnit, legacy retry, GetInfo
SimpleQuantityC(m, c, u) ==
  IF c \notin DOMAIN reg.cats THEN [q |-> [k |-> "UNITS"], memo |-> m]
  ELSE LET r1 == CCU(m, c, u) IN
       IF r1.valid THEN [q |-> [k |-> "ok", c |-> c, u |-> u, qt |-> reg.cats[c].qt], memo |-> r1.memo]
       ELSE IF ~IsLegacy(u) THEN [q |-> [k |-> "UNITS"], memo |-> r1.memo]
       ELSE LET f == FixLegacy(u)  r2 == CCU(r1.memo, c, f) IN
            IF r2.valid THEN [q |-> [k |-> "ok", c |-> c, u |-> f, qt |-> reg.cats[c].qt], memo |-> r2.memo]
            ELSE [q |-> [k |-> "UNITS"], memo |-> r2.memo]
\* ObtainQuantity(unit, category): cache by the request key; a category-less request is also
\* cached under the resolved key
ObtainC(m, ic, u, c) ==
  IF <<c, u>> \in DOMAIN ic THEN [q |-> ic[<<c, u>>], memo |-> m, icache |-> ic]
  ELSE IF c # NONE THEN
       LET r == SimpleQuantityC(m, c, u) IN
       [q |-> r.q, memo |-> r.memo, icache |-> IF r.q.k = "ok" THEN (<<c, u>> :> r.q) @@ ic ELSE ic]
  ELSE LET d1 == DefaultCategory(reg, u)
           leg == IsOk(d1) /\ d1.t = "" /\ IsLegacy(u)
           u2 == IF leg THEN FixLegacy(u) ELSE u
           d2 == IF leg THEN DefaultCategory(reg, u2) ELSE d1 IN
       IF ~IsOk(d1) THEN [q |-> [k |-> d1.k], memo |-> m, icache |-> ic]
       ELSE IF d1.t = "" /\ ~IsLegacy(u) THEN [q |-> [k |-> "UNITS"], memo |-> m, icache |-> ic]
       ELSE IF ~IsOk(d2) THEN [q |-> [k |-> d2.k], memo |-> m, icache |-> ic]
       ELSE IF d2.t = "" THEN [q |-> [k |-> "TYPE"], memo |-> m, icache |-> ic]
       ELSE IF <<d2.t, u2>> \in DOMAIN ic THEN [q |-> ic[<<d2.t, u2>>], memo |-> m, icache |-> ic]
       ELSE LET r == SimpleQuantityC(m, d2.t, u2) IN
            [q |-> r.q, memo |-> r.memo,
             icache |-> IF r.q.k = "ok" THEN (<<NONE, u>> :> r.q) @@ (<<d2.t, u2>> :> r.q) @@ ic ELSE ic]
\* the three Scalar construction forms (see RegOps!ScalarOut) through the caches
ScalarC(m, ic, c, u, form) ==
  IF form = "U" THEN
       LET r == ObtainC(m, ic, u, NONE) IN
       [out |-> IF r.q.k # "ok" THEN Exc(r.q.k) ELSE Out("ok", <<r.q.c, r.q.u, r.q.qt>>, "", One, ValidValue(reg, r.q, One)),
        memo |-> r.memo, icache |-> r.icache]
  ELSE IF c \notin DOMAIN reg.cats THEN [out |-> Exc("UNITS"), memo |-> m, icache |-> ic]
  ELSE LET k == reg.cats[c] IN
       IF form = "C" THEN
            LET r == ObtainC(m, ic, k.du, c) IN
            [out |-> IF r.q.k # "ok" THEN Exc(r.q.k) ELSE Out("ok", <<r.q.c, r.q.u, r.q.qt>>, "", R(k.dv), ValidValue(reg, r.q, R(k.dv))),
             memo |-> r.memo, icache |-> r.icache]
       ELSE LET r0 == ObtainC(m, ic, k.du, c) IN
            IF r0.q.k # "ok" THEN [out |-> Exc(r0.q.k), memo |-> r0.memo, icache |-> r0.icache]
            ELSE LET cv == QConvert(reg, r0.q.qt, r0.q.u, u, R(k.dv)) IN
                 IF ~IsOk(cv) THEN [out |-> cv, memo |-> r0.memo, icache |-> r0.icache]
                 ELSE LET r == ObtainC(r0.memo, r0.icache, u, c) IN
                      [out |-> IF r.q.k # "ok" THEN Exc(r.q.k)
                               ELSE Out("ok", <<r.q.c, r.q.u, r.q.qt>>, "", cv.x, ValidValue(reg, r.q, cv.x)),
                       memo |-> r.memo, icache |-> r.icache]

\* ---- one step ------------------------------------------------------------------------------------
Record(c, out) == hist' = Append(hist, [op |-> c.op, a |-> c.a, out |-> out])
Register(c) ==
  LET e == Effect(reg, c) IN
  /\ reg' = e.reg
  /\ Record(c, e.out)
  /\ IF IsOk(e.out) /\ (Invalidate \/ c.op = "Clear")
     THEN memo' = EmptyF /\ icache' = EmptyF ELSE UNCHANGED <<memo, icache>>
  /\ based' = IF c.op = "Clear" THEN {} ELSE IF c.op = "AddUnitBase" /\ IsOk(e.out) THEN based \cup {c.a.qt} ELSE based
Query(c) ==
  /\ UNCHANGED <<reg, based>>
  /\ CASE c.op = "CheckCategoryUnit" ->
            LET r == CCU(memo, c.a.c, c.a.u) IN
            memo' = r.memo /\ UNCHANGED icache /\ Record(c, IF r.valid THEN Ok ELSE Exc("UNITS"))
       [] c.op = "Obtain" ->
            LET r == ObtainC(memo, icache, c.a.u, c.a.c) IN
            memo' = r.memo /\ icache' = r.icache /\ Record(c, QOut(r.q))
       [] c.op \in {"Scalar", "ObjGetValidUnits"} ->
            LET r == ScalarC(memo, icache, c.a.c, c.a.u, IF c.op = "Scalar" THEN c.a.form ELSE "CU")
                v == ValidUnits(reg, c.a.c, 3) IN
            /\ memo' = r.memo /\ icache' = r.icache
            /\ Record(c, IF c.op = "Scalar" \/ ~IsOk(r.out) THEN r.out
                         ELSE IF ~IsOk(v) THEN v
                         ELSE OkS(IF r.out.s[2] \in ToSet(v.s) THEN v.s ELSE Append(v.s, r.out.s[2])))
       [] OTHER -> UNCHANGED <<memo, icache>> /\ Record(c, Effect(reg, c).out)   \* these calls touch no cache

\* ---- argument pools ---------------------------------------------------------------------------------
Spellings == Units \cup { s \in { Legacy[i][1] : i \in 1..Len(Legacy) } : FixLegacy(s) \in Units }
CatNames  == Cats \cup {""}
Call(op, a) == [op |-> op, a |-> a]
\* AddCategory arguments: a base record (category, quantity type, override, from_category) plus up
\* to MaxArity optional parameters set (built directly, not filtered out of the full product)
CatBase == { [c |-> c, qt |-> qt, valid |-> NoSeq, override |-> o, du |-> NONE, dv |-> NoNum, min |-> NoNum, max |-> NoNum,
              minx |-> FALSE, maxx |-> FALSE, from |-> fr] :
             c \in Cats, o \in BOOLEAN,
             qt \in QTs \cup {NONE}, fr \in {NONE} \cup Cats }
Mods == { [f |-> "valid", v |-> x] : x \in {SomeSeq(<<>>), SomeSeq(<<"cm">>), SomeSeq(<<"1000ft3", "m">>), SomeSeq(<<"s">>)} }
        \cup { [f |-> "du", v |-> x] : x \in {"cm", "1000ft3", "s"} }
        \cup { [f |-> "dv", v |-> x] : x \in {Num(1), Num(2)} }
        \cup { [f |-> "min", v |-> x] : x \in {Num(0), Num(2)} }
        \cup { [f |-> "max", v |-> x] : x \in {Num(0), Num(1), Num(3)} }
        \cup { [f |-> "minx", v |-> TRUE], [f |-> "maxx", v |-> TRUE] }
Apply1(b, m) == [b EXCEPT ![m.f] = m.v]
MaxArity == IF Pool = "full" THEN 3 ELSE IF Pool = "mid" THEN 2 ELSE 1
Cat1 == { Apply1(b, m) : b \in CatBase, m \in Mods }
Cat2 ==
        { Apply1(Apply1(b, p[1]), p[2]) : b \in CatBase, p \in { q \in Mods \X Mods : q[1].f # q[2].f } }
Cat3 == { Apply1(a, m) : a \in Cat2, m \in { x \in Mods : x.f \in {"dv", "min", "max", "minx", "maxx"} } }
CatArgs == CatBase \cup Cat1 \cup (IF MaxArity >= 2 THEN Cat2 ELSE {}) \cup (IF MaxArity >= 3 THEN Cat3 ELSE {})
Xs == {One, R(-2), <<5, 2>>}
Calls(op) ==
  CASE op = "AddUnit"     -> { Call(op, [qt |-> qt, u |-> u, dc |-> dc]) : qt \in QTs, u \in Units, dc \in {NONE, "dep"} }
    [] op \in {"AddUnitBase", "AddUnitBad"} -> { Call(op, [qt |-> qt, u |-> u]) : qt \in QTs, u \in Units }
    [] op = "AddCategory" -> { Call(op, a) : a \in CatArgs }
    [] op \in {"Clear", "CountUnits"} -> { Call(op, [x |-> 0]) }
    [] op \in {"CheckCategoryUnit"} -> { Call(op, [c |-> c, u |-> u]) : c \in Cats, u \in Spellings }
    [] op = "CheckQuantityTypeUnit" -> { Call(op, [qt |-> qt, u |-> u]) : qt \in QTs, u \in Spellings }
    [] op \in {"GetValidUnits", "GetDefaultUnit", "GetDefaultValue"} -> { Call(op, [c |-> c]) : c \in (IF op = "GetValidUnits" THEN CatNames ELSE Cats) }
    [] op \in {"GetBaseUnit", "GetUnits"} -> { Call(op, [qt |-> qt]) : qt \in QTs }
    [] op \in {"GetQuantityType", "GetDefaultCategory"} -> { Call(op, [u |-> u]) : u \in Spellings }
    [] op = "Convert" -> { Call(op, [q |-> q, u |-> u, v |-> v, x |-> x]) : q \in QTs \cup Cats, u \in Spellings, v \in Units, x \in Xs }
    [] op = "Obtain"  -> { Call(op, [u |-> u, c |-> c]) : u \in Spellings, c \in Cats \cup {NONE} }
    [] op = "Scalar"  -> { Call(op, [c |-> c, u |-> NONE, form |-> "C"]) : c \in Cats }
                         \cup { Call(op, [c |-> c, u |-> u, form |-> "CU"]) : c \in Cats, u \in Spellings }
                         \cup { Call(op, [c |-> NONE, u |-> u, form |-> "U"]) : u \in Spellings }
    [] op = "ObjGetValidUnits" -> { Call(op, [c |-> c, u |-> u]) : c \in Cats, u \in Units }

Init == TLCSet(2, 1 + (EmitOffset % 65520)) /\ reg = Reg0 /\ memo = EmptyF /\ icache = EmptyF /\ based = {} /\ hist = <<>>
Bound == Len(hist) < MaxCalls
\* one named action per public call (per-action coverage is reported in the evidence)
AddUnit      == Bound /\ "AddUnit" \in Ops /\ \E c \in Calls("AddUnit") : Register(c)
AddUnitBase  == Bound /\ "AddUnitBase" \in Ops /\ \E c \in Calls("AddUnitBase") : Register(c)
AddUnitBad   == Bound /\ "AddUnitBad" \in Ops /\ \E c \in Calls("AddUnitBad") : Register(c)
AddCategory  == Bound /\ "AddCategory" \in Ops /\ \E c \in Calls("AddCategory") : Register(c)
Clear        == Bound /\ "Clear" \in Ops /\ \E c \in Calls("Clear") : Register(c)
CheckCategoryUnit == Bound /\ "CheckCategoryUnit" \in Ops /\ \E c \in Calls("CheckCategoryUnit") : Query(c)
ObtainQuantity    == Bound /\ "Obtain" \in Ops /\ \E c \in Calls("Obtain") : Query(c)
BuildScalar       == Bound /\ "Scalar" \in Ops /\ \E c \in Calls("Scalar") : Query(c)
ObjGetValidUnits  == Bound /\ "ObjGetValidUnits" \in Ops /\ \E c \in Calls("ObjGetValidUnits") : Query(c)
PlainQueries == {"CheckQuantityTypeUnit", "GetValidUnits", "GetDefaultUnit", "GetDefaultValue", "GetBaseUnit", "GetUnits", "CountUnits",
                 "GetQuantityType", "GetDefaultCategory", "Convert"}
Lookup       == Bound /\ \E op \in PlainQueries \cap Ops : \E c \in Calls(op) : Query(c)
Next == AddUnit \/ AddUnitBase \/ AddUnitBad \/ AddCategory \/ Clear \/ CheckCategoryUnit \/ ObtainQuantity \/ BuildScalar
        \/ ObjGetValidUnits \/ Lookup
Spec == Init /\ [][Next]_vars

\* ---- emission of transitions for replay (ACTION_CONSTRAINT; single worker) -----------------------
MemoSet(m) == { [c |-> k[1], u |-> k[2], v |-> m[k]] : k \in DOMAIN m }
ICSet(ic)  == { [c |-> k[1], u |-> k[2], q |-> ic[k]] : k \in DOMAIN ic }
EmitMode == IF "EMIT" \in DOMAIN IOEnv THEN IOEnv.EMIT ELSE "0"
EmitRec == PrintT(<<"TR", ToJson([h |-> hist', reg |-> reg', memo |-> MemoSet(memo'), icache |-> ICSet(icache')])>>)
\* "sample": a pseudo-random 1/EmitEvery sample of the generated transitions (seed EmitOffset; -workers 1).
\* (A systematic every-k-th sample aliases with the branching factor: with 8 calls per state and k = 8 the
\* same call is sampled in every state.)
Emit == CASE EmitMode = "all"    -> EmitRec
          [] EmitMode = "sample" -> /\ TLCSet(2, (TLCGet(2) * 17364) % 65521)     \* multiplicative congruential generator
                                    /\ (TLCGet(2) % EmitEvery = 0 => EmitRec)
          [] EmitMode = "part"   -> /\ TLCSet(2, TLCGet(2) + 1)                      \* partition: process EmitOffset of EmitEvery
                                    /\ (TLCGet(2) % EmitEvery = EmitOffset % EmitEvery => EmitRec)
          [] OTHER -> TRUE

\* ---- C14 -------------------------------------------------------------------------------------------
Inv_UnitOneType       == Well_UnitOneType(reg)
Inv_BaseFirstIdentity == Well_BaseFirstIdentity(reg, based)
Inv_Cats              == Well_Cats(reg)
Inv_Buildable         == Well_Buildable(reg)
Atomic == [][ ~IsOk(Last(hist').out) => reg' = reg ]_vars
\* ---- C15 -------------------------------------------------------------------------------------------
Pure == [][ ~IsRegistration(Last(hist').op) => reg' = reg ]_vars
MemoCoherent   == \A k \in DOMAIN memo : memo[k] = ValidNow(reg, k[1], k[2])
ICacheCoherent == \A k \in DOMAIN icache : icache[k] = Obtain(reg, k[2], k[1])
NoCall == [op |-> "<init>", a |-> [x |-> 0], out |-> Ok]
Ref == INSTANCE RegistryRef WITH rreg <- reg, last <- IF hist = <<>> THEN NoCall ELSE Last(hist)
RefSpec == Ref!Spec
===========================================================================
