INIT IndInit
NEXT Next
CONSTANTS
  Ids <- IndIds
  Cats = {"length", "time"}
  Units <- IndUnits
  MaxCalls = 1
  Ops <- AllOps
  TypeOf <- TypeDef
  FactorOf <- FactorDef
  EmitEvery = 1
  EmitOffset = 0
  RoVals = {TRUE, FALSE}
INVARIANT IdsUnique
INVARIANT CurrentRegistered
INVARIANT MapsOfRegistered
PROPERTY AcceptCovers
PROPERTY AddSelectsWhenNone
PROPERTY RemoveSelectsAnother
PROPERTY Atomic
PROPERTY NotifyExactly
PROPERTY OwnMapping
PROPERTY ObjectsFollowSelection
PROPERTY ObjectsOtherwiseUntouched
PROPERTY ReadOnlyIsOnlyAFlag
CHECK_DEADLOCK FALSE
