------------------------------ MODULE MC_C08 ------------------------------
(* C08 - comparisons are coherent: order follows the physical amount, equality is total.     *)
(* MODE = "gen": the order matrix of a pool of amounts written in table units of two         *)
(*   quantity types (physically equal amounts in different units included): for every        *)
(*   ordered pair the six operator results follow from comparing the exact base amounts;     *)
(*   different quantity types -> TypeError for the four order operators.  TLC also checks    *)
(*   the coherence laws on the matrix it predicts.                                           *)
(* MODE = "judge": recorded observations                                                     *)
(*   Order   six operator results of two amounts with a measured sign of the base difference *)
(*   Eq      == / != between two objects (any classes, unrelated objects): never raise,      *)
(*           symmetric, != is the negation, reflexive, equal hashable objects hash equal     *)
EXTENDS Rat, Integers, Sequences, FiniteSets, TLC, Json, IOUtils
\* [qt, u, f (to base), x]
Pool == { [qt |-> "length", u |-> "m",  f |-> <<1, 1>>,    x |-> <<1, 1>>],
          [qt |-> "length", u |-> "cm", f |-> <<1, 100>>,  x |-> <<100, 1>>],
          [qt |-> "length", u |-> "m",  f |-> <<1, 1>>,    x |-> <<2, 1>>],
          [qt |-> "length", u |-> "km", f |-> <<1000, 1>>, x |-> <<1, 1>>],
          [qt |-> "length", u |-> "m",  f |-> <<1, 1>>,    x |-> <<1000, 1>>],
          [qt |-> "length", u |-> "cm", f |-> <<1, 100>>,  x |-> <<150, 1>>],
          [qt |-> "length", u |-> "km", f |-> <<1000, 1>>, x |-> <<-1, 2>>],
          [qt |-> "length", u |-> "m",  f |-> <<1, 1>>,    x |-> <<3, 2>>],       \* = 150 cm, written with a fractional part
          [qt |-> "time",   u |-> "min", f |-> <<60, 1>>,  x |-> <<5, 2>>],
          [qt |-> "time",   u |-> "s",  f |-> <<1, 1>>,    x |-> <<150, 1>>],
          [qt |-> "time",   u |-> "s",  f |-> <<1, 1>>,    x |-> <<60, 1>>],
          [qt |-> "time",   u |-> "min", f |-> <<60, 1>>,  x |-> <<1, 1>>],
          [qt |-> "time",   u |-> "min", f |-> <<60, 1>>,  x |-> <<2, 1>>],
          [qt |-> "time",   u |-> "h",  f |-> <<3600, 1>>, x |-> <<1, 4>>] }
Phys(a) == RMul(a.f, a.x)
Row(a, b) ==
  IF a.qt # b.qt THEN [a |-> a, b |-> b, typeerror |-> TRUE, lt |-> FALSE, le |-> FALSE, gt |-> FALSE, ge |-> FALSE]
  ELSE LET c == RCmp(Phys(a), Phys(b)) IN
       [a |-> a, b |-> b, typeerror |-> FALSE, lt |-> c < 0, le |-> c <= 0, gt |-> c > 0, ge |-> c >= 0]
Matrix == { Row(a, b) : a \in Pool, b \in Pool }
Opp(r) == CHOOSE s \in Matrix : s.a = r.b /\ s.b = r.a
Coherent == \A r \in Matrix : ~r.typeerror =>
   /\ ~(r.gt /\ Opp(r).gt) /\ (r.le \/ Opp(r).le) /\ r.lt = Opp(r).gt /\ r.le = Opp(r).ge /\ r.le = (r.lt \/ (~r.lt /\ ~r.gt))
ASSUME IOEnv.MODE = "gen" => JsonSerialize(IOEnv.OUT_FILE, [matrix |-> Matrix, coherent |-> Coherent])

Trace == IF IOEnv.MODE = "judge" THEN ndJsonDeserialize(IOEnv.TRACE_FILE) ELSE <<>>
VARIABLE l
Init == l = 0
Judge(ev) ==
  CASE ev.op = "Order" -> /\ ev.raised = ""
                          /\ ev.lt = (ev.sign < 0) /\ ev.le = (ev.sign <= 0) /\ ev.gt = (ev.sign > 0) /\ ev.ge = (ev.sign >= 0)
    [] ev.op = "OrderAcross" -> ev.raised = "TypeError"
    [] ev.op = "Eq" -> /\ ev.raised = ""
                       /\ ev.eq_ab = ev.eq_ba /\ ev.ne_ab = ~ev.eq_ab /\ ev.ne_ba = ~ev.eq_ba
                       /\ (ev.same_object => ev.eq_ab)
                       /\ ((ev.eq_ab /\ ev.hashable) => ev.hash_a = ev.hash_b)
    [] OTHER -> FALSE
Next == /\ l < Len(Trace)
        /\ l' = l + 1
        /\ IF Judge(Trace[l']) THEN TRUE ELSE PrintT(<<"VIOL", ToJson([line |-> l', ev |-> Trace[l']])>>)
=============================================================================
