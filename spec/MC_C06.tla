------------------------------ MODULE MC_C06 ------------------------------
(* C06 - named compound units agree with the composition of their parts.                    *)
(* MODE = "gen":   TLC parses every symbol of the exported table with the table's own       *)
(*                 grammar (UnitGrammar!Parse) and finds the SI-prefixed rows (symbol AND   *)
(*                 name); writes the decompositions to OUT_FILE.  The Python side never     *)
(*                 parses a unit.                                                           *)
(* MODE = "judge": judges the measured ratio  factor(row) / composition(parts)  of every    *)
(*                 decomposed row against the precision the table is written in.            *)
EXTENDS Integers, Sequences, FiniteSets, TLC, Json, IOUtils, SequencesExt

T == JsonDeserialize(IOEnv.TABLE_FILE)
N == Len(T.rows)
TUnits == { T.rows[i].unit : i \in 1..N }
G == INSTANCE UnitGrammar WITH Units <- TUnits, Legacy <- T.legacy

\* SI prefixes: <<symbol, name, power of ten>>
SIPrefixes == << <<"E", "exa", 18>>, <<"P", "peta", 15>>, <<"T", "tera", 12>>, <<"G", "giga", 9>>, <<"M", "mega", 6>>,
               <<"k", "kilo", 3>>, <<"h", "hecto", 2>>, <<"da", "deca", 1>>, <<"d", "deci", -1>>, <<"c", "centi", -2>>,
               <<"m", "milli", -3>>, <<"u", "micro", -6>>, <<"n", "nano", -9>>, <<"p", "pico", -12>>, <<"f", "femto", -15>> >>
\* registered names are not uniform: plural 's', metre/meter, litre/liter
Suffix(n, k) == IF Len(n) >= k THEN SubSeq(n, Len(n) - k + 1, Len(n)) ELSE ""
StripS(n) == IF Len(n) > 3 /\ Suffix(n, 1) = "s" /\ Suffix(n, 2) # "ss" /\ Suffix(n, 3) # "ius" /\ Suffix(n, 7) # "siemens"
             THEN SubSeq(n, 1, Len(n) - 1) ELSE n
Norm(n) == StripS(ReplaceAllSubSeqs("liter", "litre", ReplaceAllSubSeqs("meter", "metre", n)))
RowOf == [u \in TUnits |-> CHOOSE i \in 1..N : T.rows[i].unit = u]
StartsWith(s, p) == Len(s) > Len(p) /\ SubSeq(s, 1, Len(p)) = p
Rest(s, p) == SubSeq(s, Len(p) + 1, Len(s))
\* r is an SI-prefixed form of another row: by symbol and by registered name, same quantity type
IsPrefixed(r, k) ==
  /\ StartsWith(r.unit, SIPrefixes[k][1])
  /\ Rest(r.unit, SIPrefixes[k][1]) \in TUnits
  /\ LET s == T.rows[RowOf[Rest(r.unit, SIPrefixes[k][1])]] IN
     /\ s.qt = r.qt
     /\ Norm(r.name) = SIPrefixes[k][2] \o Norm(s.name)
PrefixOf(r) ==
  LET cands == IF G!Decomposes(r.unit) THEN {} ELSE { k \in 1..Len(SIPrefixes) : IsPrefixed(r, k) }   \* atomic rows only
  IN IF cands = {} THEN [has |-> FALSE, stem |-> "", pow |-> 0]
     ELSE LET k == CHOOSE k \in cands : TRUE IN [has |-> TRUE, stem |-> Rest(r.unit, SIPrefixes[k][1]), pow |-> SIPrefixes[k][3]]

\* the base row of a quantity type has factor 1 by definition: it is the reference of its type, not a judged row
Decomp(r) == IF r.pos # 1 /\ G!Decomposes(r.unit) THEN G!Parse(r.unit) ELSE <<>>
\* The factor of a row is relative to the base unit of ITS quantity type.  When that base unit itself decomposes
\* (e.g. 'm3/wtpercent', whose part 'wtpercent' is not the base of its own type) the composition of the parts is
\* expressed relative to the composition of the base row: rows must agree with their parts up to the one constant
\* of their quantity type (physical equality does not require the type's base to be coherent with the parts' bases).
QTs == { T.rows[i].qt : i \in 1..N }
BaseRow == [q \in QTs |-> CHOOSE i \in 1..N : T.rows[i].qt = q /\ T.rows[i].pos = 1]
RefOf(r) == LET b == T.rows[BaseRow[r.qt]] IN IF b.unit # r.unit /\ G!Decomposes(b.unit) THEN b.unit ELSE ""
ASSUME IOEnv.MODE = "gen" =>
   JsonSerialize(IOEnv.OUT_FILE, [i \in 1..N |-> [unit |-> T.rows[i].unit, parts |-> Decomp(T.rows[i]),
                                                  read |-> G!Read(T.rows[i].unit),        \* the plain reading of the symbol as a string (base rows included)
                                                  prefix |-> PrefixOf(T.rows[i]), ref |-> RefOf(T.rows[i]),
                                                  refparts |-> IF RefOf(T.rows[i]) = "" THEN <<>> ELSE G!Parse(RefOf(T.rows[i]))]])

\* ---- judgement -------------------------------------------------------------------------------
\* A measurement record carries ppb = |ratio - 1| in parts per 1e9 (saturating) for the ratio
\*    factor(row) / (10^prefix * PROD factor(part_i)^e_i)
\* measured on the real closures (ppb_scalar: the same through Scalar arithmetic on the parts), and the
\* number of significant digits of every literal involved, read off the closures' coefficients.
\* "To the precision the table is written in": half a unit in the last written place of every literal;
\* literals with at most three significant digits (1000, 0.001, 60, 25.4) are exact by convention.
Trace == IF IOEnv.MODE = "judge" THEN ndJsonDeserialize(IOEnv.TRACE_FILE) ELSE <<>>
Pow10(k) == IF k <= 0 THEN 1 ELSE FoldLeft(LAMBDA acc, i : acc * 10, 1, [i \in 1..k |-> i])
TolLit(sd) == IF sd <= 3 \/ sd >= 10 THEN 0 ELSE 5 * Pow10(9 - sd)            \* ppb
TolLits(ss) == FoldLeft(LAMBDA acc, sd : acc + TolLit(sd), 0, ss)
Tol(ev) == TolLits(ev.sig_row) + FoldLeft(LAMBDA acc, p : acc + p.e * TolLits(p.sig), 0, ev.sig_parts)
RoundingFloor == 10      \* ppb
Agrees(ev) == /\ ev.ppb <= Tol(ev) + RoundingFloor
              /\ ev.ppb_scalar <= Tol(ev) + RoundingFloor
VARIABLE l
Init == l = 0
Next == /\ l < Len(Trace)
        /\ l' = l + 1
        /\ IF Agrees(Trace[l']) THEN TRUE ELSE PrintT(<<"VIOL", ToJson([line |-> l', ev |-> Trace[l']])>>)
=============================================================================
