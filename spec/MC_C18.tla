------------------------------ MODULE MC_C18 ------------------------------
(* MODE = "gen":   the table of Fraction operator results over all pairs of the pool, the    *)
(*                 FractionValue amounts and their order, written to OUT_FILE for replay.    *)
(* MODE = "judge": trace validation of recorded observations:                                *)
(*     FromFloat   CreateFromFloat(x): number + fraction is x (nine significant digits),     *)
(*                 |fraction| < 1, the signs of number and fraction agree with x             *)
(*     Same        two observations that must be identical (format/parse, copy)              *)
(*     Route       FractionScalar route vs Scalar route: measured deviation in ppt           *)
(*     Bool        two truth values that must agree (FractionScalar vs Scalar comparisons)   *)
EXTENDS Fraction, Integers, FiniteSets, TLC, Json, IOUtils
Nums == -6..6
Dens == 1..8
Pool == { Norm(n, d) : n \in Nums, d \in Dens } \cup { <<1, 10>>, <<3, 100>>, <<-25, 100>>, <<7, 20>> }
Pair(p) == [n |-> p[1], d |-> p[2]]
OpRow(p, q) == [p |-> Pair(p), q |-> Pair(q), add |-> Pair(FAdd(p, q)), sub |-> Pair(FSub(p, q)), mul |-> Pair(FMul(p, q)),
                div |-> IF q[1] = 0 THEN Pair(BOT) ELSE Pair(FDiv(p, q)),
                mod |-> IF q[1] = 0 THEN Pair(BOT) ELSE Pair(FMod(p, q)),
                cmp |-> FCmp(p, q), neg |-> Pair(FNeg(p)), abs |-> Pair(FAbs(p)),
                inv |-> IF p[1] = 0 THEN Pair(BOT) ELSE Pair(FInv(p)),
                pow2 |-> Pair(FPow(p, 2)), pow3 |-> Pair(FPow(p, 3)), powm1 |-> IF p[1] = 0 THEN Pair(BOT) ELSE Pair(FPow(p, -1))]
\* FractionValues: number in -3..3 (and two decimals), fraction from a small pool
FVNums == { R(n) : n \in -3..3 } \cup { <<5, 2>>, <<-1, 4>> }
FVFracs == { <<0, 1>>, <<1, 2>>, <<3, 4>>, <<-1, 2>>, <<5, 8>>, <<7, 3>>, <<1, 10>> }
FVs == { <<n, f>> : n \in FVNums, f \in FVFracs }
FVRow(a, b) == [an |-> Pair(a[1]), af |-> Pair(a[2]), bn |-> Pair(b[1]), bf |-> Pair(b[2]),
                amount |-> Pair(Amount(a[1], a[2])), cmp |-> RCmp(Amount(a[1], a[2]), Amount(b[1], b[2]))]
ASSUME IOEnv.MODE = "gen" =>
  JsonSerialize(IOEnv.OUT_FILE, [ops |-> { OpRow(p, q) : p \in Pool, q \in Pool }, fvs |-> { FVRow(a, b) : a \in FVs, b \in FVs }])

Trace == IF IOEnv.MODE = "judge" THEN ndJsonDeserialize(IOEnv.TRACE_FILE) ELSE <<>>
VARIABLE l
Init == l = 0
Judge(ev) ==
  CASE ev.op = "FromFloat" ->
         /\ Close9(ev.obs, <<ev.x[1], ev.x[2]>>) \in {"yes", "inconclusive"}
         /\ ev.frac_lt_1 /\ ev.signs_ok /\ ev.number_integral
    [] ev.op = "Same"  -> ev.a = ev.b
    [] ev.op = "Bool"  -> ev.a = ev.b
    [] ev.op = "Route" -> ev.ppt <= 1000 /\ ev.unit_ok /\ ev.category_ok
    [] OTHER -> FALSE
Next == /\ l < Len(Trace)
        /\ l' = l + 1
        /\ IF Judge(Trace[l']) THEN TRUE ELSE PrintT(<<"VIOL", ToJson([line |-> l', ev |-> Trace[l']])>>)
=============================================================================
