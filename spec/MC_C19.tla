------------------------------ MODULE MC_C19 ------------------------------
(* C19 - equivalent construction forms build equal objects (real table, exhaustive).         *)
(* The default category of a unit is computed here from the exported table (per-unit         *)
(* default_category, else the category named like the quantity type); every recorded event   *)
(* lists the projections of the objects built through the documented forms:                  *)
(*   Forms     all projections identical, all pairwise == true, and the object has the unit, *)
(*             the expected category (default or given) and the unit's quantity type         *)
(*   CatAlone  the object built from the category alone equals the one built from the        *)
(*             category's default value and default unit (taken from the exported table)     *)
(*   Repr      eval(repr(x)) is equal to x                                                   *)
EXTENDS Integers, Sequences, FiniteSets, TLC, Json, IOUtils
T == JsonDeserialize(IOEnv.TABLE_FILE)
Rows == T.rows
RowOf == [u \in { Rows[i].unit : i \in 1..Len(Rows) } |-> CHOOSE i \in 1..Len(Rows) : Rows[i].unit = u]
CatIdx == [c \in { T.cats[i].cat : i \in 1..Len(T.cats) } |-> CHOOSE i \in 1..Len(T.cats) : T.cats[i].cat = c]
DefaultCat(u) == LET r == Rows[RowOf[u]] IN
                 IF r.defcat # "" THEN r.defcat ELSE IF r.qt \in DOMAIN CatIdx THEN r.qt ELSE ""
AllSame(s) == \A i \in 1..Len(s) : s[i] = s[1]
Trace == ndJsonDeserialize(IOEnv.TRACE_FILE)
VARIABLE l
Init == l = 0
Judge(ev) ==
  CASE ev.op = "Forms" ->
         /\ Len(ev.projs) >= 2 /\ AllSame(ev.projs) /\ ev.all_eq
         /\ ev.unit = ev.u /\ ev.qtype = Rows[RowOf[ev.u]].qt
         /\ ev.category = (IF ev.given_category = "" THEN DefaultCat(ev.u) ELSE ev.given_category)
         /\ ev.category # "" /\ T.cats[CatIdx[ev.category]].qt = ev.qtype
    [] ev.op = "CatAlone" ->
         /\ AllSame(ev.projs) /\ ev.all_eq
         /\ ev.unit = T.cats[CatIdx[ev.c]].du /\ ev.category = ev.c /\ ev.qtype = T.cats[CatIdx[ev.c]].qt
    [] ev.op = "Repr" -> ev.eq /\ ev.proj1 = ev.proj2
    [] OTHER -> FALSE
Next == /\ l < Len(Trace)
        /\ l' = l + 1
        /\ IF Judge(Trace[l']) THEN TRUE ELSE PrintT(<<"VIOL", ToJson([line |-> l', ev |-> Trace[l']])>>)
=============================================================================
