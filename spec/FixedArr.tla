------------------------------ MODULE FixedArr ------------------------------
(* C11 - size invariants: FixedArray (len(values) = dimension >= 2) and Curve (image and     *)
(* domain have equal length), as state machines over every entry route.                      *)
(* A FixedArray descriptor is [dim, vs, u]: dimension, amounts (exact rationals), unit of    *)
(* the quantity type length (m, cm).  Transcribed from _fixedarray.py / _array.py:           *)
(* constructor (dimension check before anything), _InternalCreateWithQuantity (dimension     *)
(* resolution: keyword, instance, len(values)), CreateEmptyArray, CreateCopy (forwards the   *)
(* dimension), arithmetic (result dimension = len(result)), pickling, ChangingIndex and      *)
(* IndexAsScalar; curve.py: SetImage / SetDomain check against the other array.              *)
EXTENDS Rat, Integers, Sequences, SequencesExt, FiniteSets, TLC, Json

CONSTANTS MaxCalls, MaxDim, EmitMode, EmitEvery, EmitOffset
VARIABLES pool, curve, hist
vars == <<pool, curve, hist>>
View == IF EmitMode # "0" THEN <<pool, curve>> ELSE <<pool, curve, Len(hist)>>

Vals(n) == [i \in 1..n |-> R(i)]                        \* the values 1, 2, .., n
F(u) == IF u = "cm" THEN <<1, 100>> ELSE One            \* to-base factor
Conv(u, v, x) == RDiv(RMul(x, F(u)), F(v))
FA(d, vs, u) == [dim |-> d, vs |-> vs, u |-> u]
OkA(a) == [ok |-> TRUE, exc |-> "", a |-> a, x |-> Zero]
OkX(x) == [ok |-> TRUE, exc |-> "", a |-> FA(0, <<>>, ""), x |-> x]
Fail(f) == [ok |-> FALSE, exc |-> f, a |-> FA(0, <<>>, ""), x |-> Zero]
NoDim == -1
\* _InternalCreateWithQuantity(values of length n, dimension keyword d or NoDim, instance dimension inst or NoDim)
Create(vs, d, inst, u) ==
  LET dimension == IF d = NoDim THEN (IF inst = NoDim THEN Len(vs) ELSE inst) ELSE d IN
  IF d # NoDim /\ inst # NoDim /\ d # inst THEN Fail("VALUE")
  ELSE IF dimension < 2 THEN Fail("VALUE")
  ELSE IF Len(vs) # dimension THEN Fail("VALUE")
  ELSE OkA(FA(dimension, vs, u))

\* indices are Python indices: -n .. n-1 address an array of n values, negative ones from the end
InRange(i, n) == -n <= i /\ i < n
Pos(i, n) == IF i < 0 THEN n + i + 1 ELSE i + 1
Effect(c) ==
  CASE c.op = "Ctor"        -> IF c.d < 2 THEN Fail("VALUE") ELSE Create(Vals(c.n), NoDim, c.d, c.u)      \* FixedArray(d, values, unit)
    [] c.op = "CtorDefault" -> IF c.d < 2 THEN Fail("VALUE") ELSE Create([i \in 1..c.d |-> Zero], NoDim, c.d, "m")   \* FixedArray(d, category)
    [] c.op = "CreateWithQuantity" -> Create(Vals(c.n), c.d, NoDim, c.u)                                   \* dimension keyword optional
    [] c.op = "CreateEmptyArray"   -> Create(IF c.n = NoDim THEN [i \in 1..c.d |-> Zero] ELSE Vals(c.n), c.d, NoDim, "")
    [] c.op = "CreateCopy"  -> LET a == pool[c.i] IN Create(IF c.n = NoDim THEN a.vs ELSE Vals(c.n), a.dim, NoDim, a.u)
    [] c.op = "CopyToUnit"  -> LET a == pool[c.i] IN Create([k \in 1..Len(a.vs) |-> Conv(a.u, c.u, a.vs[k])], a.dim, NoDim, c.u)
    \* CreateCopy(values=.., unit=u [, category=..]): the three branches of CreateCopy that build a new quantity (category given; unit given and
    \* the source has a category; unit given and the source has the empty quantity) all forward the source's dimension
    [] c.op = "CopyValuesTo" -> LET a == pool[c.i] IN Create(Vals(c.n), a.dim, NoDim, c.u)
    [] c.op = "Pickle"      -> OkA(pool[c.i])
    [] c.op = "Scale"       -> LET a == pool[c.i] IN OkA(FA(Len(a.vs), [k \in 1..Len(a.vs) |-> RMul(a.vs[k], R(2))], a.u))   \* a * 2
    [] c.op = "AddArrays"   -> LET a == pool[c.i]  b == pool[c.j] IN
                               IF Len(a.vs) # Len(b.vs) THEN Fail("VALUE")
                               ELSE OkA(FA(Len(a.vs), [k \in 1..Len(a.vs) |-> RAdd(a.vs[k], Conv(b.u, a.u, b.vs[k]))], a.u))
    [] c.op = "ChangingIndex" ->
         \* c.form: "number" (in the array's unit), "scalar" (Scalar in c.u, use_value_unit), "keep" (use_value_unit = False), "tuple" (7.5, c.u),
         \*         "tuplekeep" ((None, c.u): the entry keeps its amount, the array is re-expressed in c.u)
         LET a == pool[c.i]
             ru == IF c.form \in {"scalar", "tuple", "tuplekeep"} THEN c.u ELSE a.u                 \* unit of the result
             amount == IF c.form = "number" THEN <<15, 2>>
                       ELSE IF c.form = "tuplekeep" /\ InRange(c.idx, Len(a.vs)) THEN Conv(a.u, ru, a.vs[Pos(c.idx, Len(a.vs))])
                       ELSE Conv(c.u, ru, <<15, 2>>) IN      \* the supplied amount 7.5 (in c.u), in the result's unit
         IF ~InRange(c.idx, Len(a.vs)) THEN Fail("INDEX")
         ELSE OkA(FA(a.dim, [k \in 1..Len(a.vs) |-> IF k = Pos(c.idx, Len(a.vs)) THEN amount ELSE Conv(a.u, ru, a.vs[k])], ru))
    [] c.op = "IndexAsScalar" -> LET a == pool[c.i] IN
         IF ~InRange(c.idx, Len(a.vs)) THEN Fail("INDEX") ELSE OkX(Conv(a.u, c.u, a.vs[Pos(c.idx, Len(a.vs))]))
    \* Curve.GetLength() and curve[i] = (domain value, image value) at a Python index; the replayer fills image and domain with 0, 1, 2, ...
    [] c.op = "CurveLen"  -> OkX(R(curve.img))
    [] c.op = "CurveItem" -> IF InRange(c.idx, curve.img) THEN OkX(R(Pos(c.idx, curve.img) - 1)) ELSE Fail("INDEX")
    [] c.op \in {"SetImage", "SetDomain"} -> IF c.n = (IF c.op = "SetImage" THEN curve.dom ELSE curve.img) THEN OkX(Zero) ELSE Fail("VALUE")

Appends(op) == op \in {"Ctor", "CtorDefault", "CreateWithQuantity", "CreateEmptyArray", "CreateCopy", "CopyToUnit", "CopyValuesTo", "Pickle", "Scale", "AddArrays", "ChangingIndex"}
Step(c) ==
  /\ Len(hist) < MaxCalls
  /\ \E r \in {Effect(c)} :
     /\ pool' = IF r.ok /\ Appends(c.op) /\ c.form # "points" THEN Append(pool, r.a) ELSE pool     \* (arrays of points are judged when they are built and not used further)
     /\ curve' = IF r.ok /\ c.op = "SetImage" THEN [curve EXCEPT !.img = c.n]
                 ELSE IF r.ok /\ c.op = "SetDomain" THEN [curve EXCEPT !.dom = c.n] ELSE curve
     /\ hist' = Append(hist, [c |-> c, ok |-> r.ok, exc |-> r.exc, a |-> r.a, x |-> r.x, cv |-> curve.img])

Dims == 0..MaxDim
Lens == 0..MaxDim
Us == {"m", "cm"}
\* (a fresh record per call: several TLC workers normalising one shared record value race)
C(op) == [f \in {"op", "d", "n", "i", "j", "u", "idx", "form"} |->
            CASE f = "op" -> op [] f \in {"d", "n"} -> NoDim [] f \in {"i", "j", "idx"} -> 0 [] f = "u" -> "m" [] f = "form" -> ""]
\* form "points": the values are n points of size two (a list / tuple of pairs, a two-dimensional numpy array) - the length that must equal the
\* dimension is the number of points, on every route that takes values
PForms == {"", "points"}
\* the constructor's argument forms: (dimension, values, unit), (dimension, category, values, unit), (dimension, quantity, values), values given by keyword
CForms == PForms \cup {"category", "quantity", "kwvalues"}
Ctor == \E d \in Dims, n \in Lens, u \in Us, f \in CForms : Step([C("Ctor") EXCEPT !.d = d, !.n = n, !.u = u, !.form = f])
CtorDefault == \E d \in Dims : Step([C("CtorDefault") EXCEPT !.d = d])
CreateWithQuantity == \E d \in Dims \cup {NoDim}, n \in Lens, f \in PForms : Step([C("CreateWithQuantity") EXCEPT !.d = d, !.n = n, !.form = f])
CreateEmptyArray == \E d \in Dims, n \in Lens \cup {NoDim}, f \in PForms : (n = NoDim => f = "") /\ Step([C("CreateEmptyArray") EXCEPT !.d = d, !.n = n, !.form = f])
I == 1..Len(pool)
CreateCopy == \E i \in I, n \in Lens \cup {NoDim}, f \in PForms : (n = NoDim => f = "") /\ Step([C("CreateCopy") EXCEPT !.i = i, !.n = n, !.form = f])
CopyToUnit == \E i \in I, u \in Us : pool[i].u # "" /\ Step([C("CopyToUnit") EXCEPT !.i = i, !.u = u])
CopyValuesTo == \E i \in I, n \in Lens, u \in Us, f \in {"unit", "unitcat"} : Step([C("CopyValuesTo") EXCEPT !.i = i, !.n = n, !.u = u, !.form = f])
Pickle == \E i \in I : Step([C("Pickle") EXCEPT !.i = i])
Scale == \E i \in I : Step([C("Scale") EXCEPT !.i = i])
AddArrays == \E i \in I, j \in I : pool[i].u # "" /\ pool[j].u # "" /\ Step([C("AddArrays") EXCEPT !.i = i, !.j = j])
ChangingIndex == \E i \in I, idx \in (-MaxDim - 1)..MaxDim, f \in {"number", "scalar", "keep", "tuple", "tuplekeep"}, u \in Us :
                   pool[i].u # "" /\ (f = "number" => u = "m") /\ Step([C("ChangingIndex") EXCEPT !.i = i, !.idx = idx, !.form = f, !.u = u])
IndexAsScalar == \E i \in I, idx \in (-MaxDim - 1)..MaxDim, u \in Us : pool[i].u # "" /\ Step([C("IndexAsScalar") EXCEPT !.i = i, !.idx = idx, !.u = u])
\* form "points": the values are n points of size two (a list of pairs / a two-dimensional numpy array) - the length is the number of points
\* form "prop": the array is assigned through the property (curve.image = x / curve.domain = x), the same check applies
SetImage == \E n \in Lens, f \in {"", "points", "points2d", "prop"} : Step([C("SetImage") EXCEPT !.n = n, !.form = f])
SetDomain == \E n \in Lens, f \in {"", "points", "points2d", "prop"} : Step([C("SetDomain") EXCEPT !.n = n, !.form = f])
CurveLen == Step(C("CurveLen"))
CurveItem == \E idx \in (-MaxDim - 1)..MaxDim : Step([C("CurveItem") EXCEPT !.idx = idx])
Init == /\ TLCSet(2, 1 + (EmitOffset % 65520)) /\ pool = <<>> /\ hist = <<>>
        /\ \E k \in Lens : curve = [img |-> k, dom |-> k]               \* Curve(image, domain) of equal lengths
Next == Ctor \/ CtorDefault \/ CreateWithQuantity \/ CreateEmptyArray \/ CreateCopy \/ CopyToUnit \/ CopyValuesTo \/ Pickle \/ Scale \/ AddArrays
        \/ ChangingIndex \/ IndexAsScalar \/ SetImage \/ SetDomain \/ CurveLen \/ CurveItem
Spec == Init /\ [][Next]_vars
Bounded == Len(pool) <= 3

\* ---- C11 ----------------------------------------------------------------------------------------------
SizeInvariant == \A k \in 1..Len(pool) : Len(pool[k].vs) = pool[k].dim /\ pool[k].dim >= 2
CurveInvariant == curve.img = curve.dom
LastStep == hist'[Len(hist')]
RejectedChangesNothing == [][ ~LastStep.ok => (pool' = pool /\ curve' = curve) ]_vars
Frozen == [][ \A k \in 1..Len(pool) : pool'[k] = pool[k] ]_vars
\* ChangingIndex differs from its source only at the index (physically), where it holds the supplied amount
ChangingIndexLaw == [][ LET s == LastStep IN (s.c.op = "ChangingIndex" /\ s.ok) =>
     LET a == pool[s.c.i]  r == s.a IN
     /\ r.dim = a.dim
     /\ \A k \in 1..a.dim : k # Pos(s.c.idx, a.dim) => RMul(r.vs[k], F(r.u)) = RMul(a.vs[k], F(a.u))
     /\ RMul(r.vs[Pos(s.c.idx, a.dim)], F(r.u)) = IF s.c.form = "tuplekeep" THEN RMul(a.vs[Pos(s.c.idx, a.dim)], F(a.u))
                                                     ELSE RMul(<<15, 2>>, F(IF s.c.form = "number" THEN a.u ELSE s.c.u)) ]_vars

EmitRec == PrintT(<<"TR", ToJson([h |-> hist'])>>)
Emit == CASE EmitMode = "all"    -> EmitRec
          [] EmitMode = "sample" -> /\ TLCSet(2, (TLCGet(2) * 17364) % 65521)
                                    /\ (TLCGet(2) % EmitEvery = 0 => EmitRec)
          [] OTHER -> TRUE
=============================================================================
