---------------------------- MODULE RegistryRef ----------------------------
(* The cache-free reference machine of the unit database (C15): its only state is the        *)
(* registry and the last call with its outcome; every outcome is RegOps!Effect evaluated on  *)
(* the registry alone.  Registry.tla (with memo and icache) must implement this machine      *)
(* under the identity mapping on the registry and on outcomes: caches are then semantically  *)
(* invisible - "the answer to any query is the same whether it is asked first on a freshly   *)
(* built database or after an arbitrary history of other queries, failed lookups and later   *)
(* registrations".                                                                           *)
EXTENDS RegOps

VARIABLES rreg, last
rvars == <<rreg, last>>

Init == rreg = Reg0 /\ last.op = "<init>"
\* the step is determined by the call recorded in last': its outcome and effect come from rreg only
Next == LET c == [op |-> last'.op, a |-> last'.a]
            e == Effect(rreg, c) IN
        /\ last'.out = e.out
        /\ rreg' = e.reg
Spec == Init /\ [][Next]_rvars
=============================================================================
