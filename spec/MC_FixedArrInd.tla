--------------------------- MODULE MC_FixedArrInd ---------------------------
(* C11, for histories of ANY length: an inductive check of FixedArr.tla by TLC.              *)
(* IndInit enumerates every pool of up to two FixedArray descriptors that satisfy            *)
(* SizeInvariant (any dimension 2..MaxDim, any of three value vectors, unit m / cm / none)   *)
(* and every curve that satisfies CurveInvariant, with an empty history; MaxCalls = 1 lets   *)
(* every call of the machine be taken once from each of them.  The invariants hold again     *)
(* afterwards and the action properties hold for the step: since the pool is append-only     *)
(* and a call reads at most two of its members, this covers every step of every behaviour.   *)
EXTENDS FixedArr
VecsOf(d) == { [i \in 1..d |-> R(i)], [i \in 1..d |-> R(2 * i)], [i \in 1..d |-> <<15, 2>>] }
IndArrays == UNION { { FA(d, vs, u) : vs \in VecsOf(d), u \in {"m", "cm", ""} } : d \in 2..MaxDim }
ArraysOf(d) == { a \in IndArrays : a.dim = d /\ Len(a.vs) = d }
IndInit == \E k \in Lens :
           \E p \in {<<>>} \cup { <<a>> : a \in UNION { ArraysOf(d) : d \in 2..MaxDim } }
                           \cup { <<a, b>> : a \in UNION { ArraysOf(d) : d \in 2..MaxDim }, b \in UNION { ArraysOf(d) : d \in 2..MaxDim } } :
             /\ TLCSet(2, 1)
             /\ pool = p /\ curve = [img |-> k, dom |-> k] /\ hist = <<>>
=============================================================================
