SPECIFICATION Spec
VIEW View
CONSTRAINT InBounds
ACTION_CONSTRAINT Emit
PROPERTY C03_Sum
PROPERTY C04_Prod
PROPERTY C04_Pow
PROPERTY C05_FailClosed
PROPERTY C13_Frozen
PROPERTY C20_RoundTrip
CHECK_DEADLOCK FALSE
CONSTANTS
  BuildOps <- Build
