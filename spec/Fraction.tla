----------------------------- MODULE Fraction -----------------------------
(* C18 - barril.basic.fraction as exact rational arithmetic.                                  *)
(* A Fraction(a, b) built from short decimals a = ka / 10^ja, b = kb / 10^jb denotes the     *)
(* rational a / b (the constructor scales by tens until the numerator is integral and        *)
(* reduces); every operator is the corresponding operation on exact rationals (Rat.tla).     *)
(* A FractionValue denotes number + fraction.                                                *)
EXTENDS Rat, Sequences

FracOf(a, b) == RDiv(a, b)                       \* a, b rationals, b # 0
FAdd(p, q) == RAdd(p, q)
FSub(p, q) == RSub(p, q)
FMul(p, q) == RMul(p, q)
FDiv(p, q) == RDiv(p, q)                          \* q # 0
FNeg(p) == RNeg(p)
FAbs(p) == <<Abs(p[1]), p[2]>>
FInv(p) == RInv(p)
\* Python's % on rationals: p - q * floor(p / q)   (sign of the divisor)
FMod(p, q) == RSub(p, RMul(q, RFloor(RDiv(p, q))))
FPow(p, n) == RPow(p, n)                          \* integer exponent
FCmp(p, q) == RCmp(p, q)
Amount(number, frac) == RAdd(number, frac)
===========================================================================
