---------------------------- MODULE MC_Registry ----------------------------
(* Model instance of Registry.tla; the parameters come from the environment so that one     *)
(* module serves the exhaustive check, the emission run, simulation and negative controls.  *)
EXTENDS Registry
\* the substitution list is read from the running code (exported by the harness)
LegacyJson == JsonDeserialize(IOEnv.LEGACY_FILE)
LegacyDef == [i \in 1..Len(LegacyJson) |-> <<LegacyJson[i][1], LegacyJson[i][2]>>]
FactorDef == [u \in {"m", "cm", "Mcf", "s"} |->
               CASE u = "m" -> <<2, 1>> [] u = "cm" -> <<1, 100>> [] u = "Mcf" -> <<1000, 1>> [] u = "s" -> <<60, 1>>]
RECURSIVE ToNatS(_, _, _)
ToNatS(s, i, acc) == IF i > Len(s) THEN acc
                     ELSE ToNatS(s, i + 1, acc * 10 + (CHOOSE d \in 0..9 : ToString(d) = SubSeq(s, i, i)))
MaxCallsDef == ToNatS(IOEnv.MAXCALLS, 1, 0)
AllOps == {"AddUnit", "AddUnitBase", "AddUnitBad", "CountUnits", "AddCategory", "Clear", "CheckCategoryUnit", "CheckQuantityTypeUnit", "GetValidUnits",
           "GetDefaultUnit", "GetDefaultValue", "GetBaseUnit", "GetUnits", "GetQuantityType", "GetDefaultCategory",
           "Convert", "Obtain", "Scalar", "ObjGetValidUnits"}
OpsDef == IF IOEnv.OPS = "all" THEN AllOps
          ELSE IF IOEnv.OPS = "reg" THEN {"AddUnit", "AddUnitBase", "AddUnitBad", "AddCategory", "Clear"}
          ELSE IF IOEnv.OPS = "c14" THEN {"AddUnit", "AddUnitBase", "AddUnitBad", "AddCategory", "Clear", "Scalar", "GetValidUnits", "GetBaseUnit", "Convert"}
          ELSE IF IOEnv.OPS = "cache" THEN {"AddUnit", "AddUnitBase", "AddCategory", "CheckCategoryUnit", "Obtain", "Scalar"}
          ELSE AllOps
InvalidateDef == IOEnv.INVALIDATE # "0"
PoolDef == IOEnv.POOL
EveryDef == ToNatS(IOEnv.EVERY, 1, 0)
OffsetDef == ToNatS(IOEnv.OFFSET, 1, 0)
=============================================================================
