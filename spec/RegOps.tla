------------------------------ MODULE RegOps ------------------------------
(* Pure semantics of barril's UnitDatabase as functions of the registry                      *)
(*      reg = [order : quantity type -> Seq(unit)   (first = base by convention),            *)
(*             units : unit -> [qt, ident, dc]      (ident: both closures are the identity), *)
(*             cats  : category -> CategoryInfo record]                                      *)
(* transcribed call by call from unit_database.py / _quantity.py (see notes/semantics.md).   *)
(* Nothing here knows about caches: this is the reference meaning of every call.             *)
(* Registry.tla adds the caches the code keeps; RegistryRef.tla is the cache-free machine.   *)
EXTENDS Integers, Sequences, SequencesExt, FiniteSets, TLC, Rat

CONSTANTS QTs,        \* quantity type names
          Units,      \* unit symbols that may be registered
          Cats,       \* category names (one of them may coincide with a quantity type name)
          Legacy,     \* sequence of <<legacy, current>> spellings, in the code's order
          FactorOf    \* unit -> <<n, d>>: to-base factor used when the unit is registered with AddUnit

NONE == "<none>"
NoNum == [has |-> FALSE, v |-> 0]
Num(x) == [has |-> TRUE, v |-> x]
NoSeq == [has |-> FALSE, s |-> <<>>]
SomeSeq(s) == [has |-> TRUE, s |-> s]
EmptyF == [x \in {} |-> 0]
Reg0 == [order |-> EmptyF, units |-> EmptyF, cats |-> EmptyF]

\* ---- outcomes: one record shape for every call ------------------------------------------------
\*   k: "ok" or an exception family; s: list result; t: string result; x: rational result; b: flag
Out(k, s, t, x, b) == [k |-> k, s |-> s, t |-> t, x |-> x, b |-> b]
Ok      == Out("ok", <<>>, "", Zero, FALSE)
OkS(s)  == Out("ok", s, "", Zero, FALSE)
OkT(t)  == Out("ok", <<>>, t, Zero, FALSE)
OkX(x)  == Out("ok", <<>>, "", x, FALSE)
Exc(f)  == Out(f, <<>>, "", Zero, FALSE)
IsOk(o) == o.k = "ok"

FixLegacy(u) == FoldLeft(LAMBDA acc, p : ReplaceAllSubSeqs(p[2], p[1], acc), u, Legacy)
IsLegacy(u)  == FixLegacy(u) # u

UnitsOf(reg, qt) == IF qt \in DOMAIN reg.order THEN reg.order[qt] ELSE <<>>
UnitSet(reg, qt) == ToSet(UnitsOf(reg, qt))
Factor(reg, u)   == IF reg.units[u].ident THEN One ELSE FactorOf[u]

\* ---- registrations ------------------------------------------------------------------------------
\* AddUnit / AddUnitBase (unit_database.py AddUnit, AddUnitBase): duplicate symbol -> RuntimeError,
\* nothing changed; a base unit goes to the front of its quantity type's list.
RegAddUnit(reg, qt, u, base, dc) ==
  IF u \in DOMAIN reg.units THEN [out |-> Exc("RUNTIME"), reg |-> reg]
  ELSE [out |-> Ok,
        reg |-> [reg EXCEPT !.units = (u :> [qt |-> qt, ident |-> base, dc |-> dc]) @@ reg.units,
                            !.order = (qt :> (IF base THEN <<u>> \o UnitsOf(reg, qt) ELSE Append(UnitsOf(reg, qt), u))) @@ reg.order]]

\* walks the valid units as AddCategory does: legacy-fix each, stop at the first one not in the type
RECURSIVE FixValid(_, _, _, _)
FixValid(vs, i, qunits, acc) ==
  IF i > Len(vs) THEN [ok |-> TRUE, s |-> acc]
  ELSE LET f == FixLegacy(vs[i]) IN
       IF f \in qunits THEN FixValid(vs, i + 1, qunits, Append(acc, f)) ELSE [ok |-> FALSE, s |-> acc]

\* a = [c, qt, valid, override, du, dv, min, max, minx, maxx, from]; checks in the code's order
CatResult(reg, a) ==
  IF a.from # NONE /\ a.qt # NONE THEN [exc |-> "VALUE"]
  ELSE IF ~a.override /\ a.c \in DOMAIN reg.cats THEN [exc |-> "UNITS"]
  ELSE IF a.min.has /\ a.max.has /\ a.max.v < a.min.v THEN [exc |-> "VALUE"]
  ELSE IF a.from # NONE /\ a.from \notin DOMAIN reg.cats THEN [exc |-> "UNITS"]
  ELSE LET src   == IF a.from # NONE THEN reg.cats[a.from] ELSE [qt |-> NONE]
           qt    == IF a.from # NONE THEN src.qt ELSE a.qt
           valid == IF a.from # NONE /\ ~a.valid.has THEN src.valid ELSE a.valid
           du0   == IF a.from # NONE /\ a.du = NONE THEN src.du ELSE a.du
           dv0   == IF a.from # NONE /\ ~a.dv.has THEN Num(src.dv) ELSE a.dv
           min   == IF a.from # NONE /\ ~a.min.has THEN src.min ELSE a.min
           max   == IF a.from # NONE /\ ~a.max.has THEN src.max ELSE a.max
       IN IF qt = NONE THEN [exc |-> "ASSERT"]
          ELSE IF qt \notin DOMAIN reg.order THEN [exc |-> "UNITS"]      \* GetUnits / GetBaseUnit of an unknown type
          ELSE LET fv == IF valid.has THEN FixValid(valid.s, 1, UnitSet(reg, qt), <<>>) ELSE [ok |-> TRUE, s |-> <<>>] IN
               IF ~fv.ok THEN [exc |-> "VALUE"]
               ELSE LET vseq == fv.s
                        base == reg.order[qt][1]
                        du   == IF du0 = NONE
                                THEN (IF vseq # <<>> /\ base \notin ToSet(vseq) THEN vseq[1] ELSE base)
                                ELSE FixLegacy(du0)
                    IN IF du \notin UnitSet(reg, qt) THEN [exc |-> "VALUE"]
                       ELSE IF ~dv0.has /\ (a.minx \/ a.maxx) THEN [exc |-> "RUNTIME"]
                       ELSE LET dv == IF dv0.has THEN dv0.v ELSE IF min.has THEN min.v ELSE IF max.has THEN max.v ELSE 0
                                lowok  == ~min.has \/ (IF a.minx THEN dv > min.v ELSE dv >= min.v)
                                highok == ~max.has \/ (IF a.maxx THEN dv < max.v ELSE dv <= max.v)
                            IN IF dv0.has /\ ~(lowok /\ highok) THEN [exc |-> "ASSERT"]
                               ELSE [info |-> [qt |-> qt, valid |-> (IF valid.has THEN SomeSeq(vseq) ELSE NoSeq),
                                               du |-> du, dv |-> dv, min |-> min, max |-> max,
                                               minx |-> a.minx, maxx |-> a.maxx]]
RegAddCategory(reg, a) ==
  LET r == CatResult(reg, a) IN
  IF "exc" \in DOMAIN r THEN [out |-> Exc(r.exc), reg |-> reg]
  ELSE [out |-> Ok, reg |-> [reg EXCEPT !.cats = (a.c :> r.info) @@ reg.cats]]

\* ---- lookups (reference meaning: computed from the registry alone) -----------------------------
\* GetInfo(quantity_type, unit, fix_unknown, fix_legacy): result [ok, u] (the unit found) or family
GetInfo(reg, qt, u, fixLegacy) ==
  IF u \in DOMAIN reg.units /\ reg.units[u].qt = qt THEN [ok |-> TRUE, u |-> u]
  ELSE LET qt2 == IF qt \in DOMAIN reg.cats THEN reg.cats[qt].qt ELSE qt IN   \* a category name works as a type
       IF qt2 \notin DOMAIN reg.order THEN [ok |-> FALSE, u |-> "UNITS"]
       ELSE IF u \in UnitSet(reg, qt2) THEN [ok |-> TRUE, u |-> u]
       ELSE LET f == FixLegacy(u) IN
            IF fixLegacy /\ f # u /\ f \in DOMAIN reg.units /\ reg.units[f].qt = qt2 THEN [ok |-> TRUE, u |-> f]
            ELSE [ok |-> FALSE, u |-> "UNITS"]
TypeHasUnit(reg, qt, u) == GetInfo(reg, qt, u, FALSE).ok            \* CheckQuantityTypeUnit does not raise
ValidNow(reg, c, u) == c \in DOMAIN reg.cats /\ TypeHasUnit(reg, reg.cats[c].qt, u)   \* CheckCategoryUnit does not raise

\* GetValidUnits(category): "" -> []; own list; else the list of the category named like the type; else the type's units
RECURSIVE ValidUnits(_, _, _)
ValidUnits(reg, c, fuel) ==
  IF c = "" THEN OkS(<<>>)
  ELSE IF c \notin DOMAIN reg.cats THEN Exc("UNITS")
  ELSE LET k == reg.cats[c] IN
       IF k.valid.has THEN OkS(k.valid.s)
       ELSE IF k.qt # c THEN (IF fuel = 0 THEN Exc("RUNTIME") ELSE ValidUnits(reg, k.qt, fuel - 1))
       ELSE IF k.qt \in DOMAIN reg.order THEN OkS(reg.order[k.qt]) ELSE Exc("UNITS")

\* GetDefaultCategory(unit): [k, t] with t = "" for None
DefaultCategory(reg, u) ==
  LET res(x) == LET dc == reg.units[x].dc  qt == reg.units[x].qt IN
                IF dc # NONE THEN OkT(dc) ELSE IF qt \in DOMAIN reg.cats THEN OkT(qt) ELSE OkT("")
  IN IF u \in DOMAIN reg.units THEN res(u)
     ELSE IF ~IsLegacy(u) THEN OkT("")
     ELSE IF FixLegacy(u) \in DOMAIN reg.units THEN res(FixLegacy(u)) ELSE Exc("KEY")

\* Quantity(category, unit) for a simple quantity: [k |-> "ok", c, u, qt] or a family
\* (GetCategoryInfo, CheckCategoryUnit with one legacy retry, GetInfo(fix_unknown=True))
SimpleQuantity(reg, c, u) ==
  IF c \notin DOMAIN reg.cats THEN [k |-> "UNITS"]
  ELSE LET u2 == IF ValidNow(reg, c, u) THEN u ELSE IF IsLegacy(u) /\ ValidNow(reg, c, FixLegacy(u)) THEN FixLegacy(u) ELSE NONE IN
       IF u2 = NONE THEN [k |-> "UNITS"]
       ELSE LET qt == reg.cats[c].qt
                gi == GetInfo(reg, qt, u2, TRUE) IN
            IF ~gi.ok THEN [k |-> "UNITS"] ELSE [k |-> "ok", c |-> c, u |-> u2, qt |-> qt]

\* ObtainQuantity(unit, category) - category may be NONE
Obtain(reg, u, c) ==
  IF c # NONE THEN SimpleQuantity(reg, c, u)
  ELSE LET d1 == DefaultCategory(reg, u) IN
       IF ~IsOk(d1) THEN [k |-> d1.k]
       ELSE IF d1.t # "" THEN SimpleQuantity(reg, d1.t, u)
       ELSE IF ~IsLegacy(u) THEN [k |-> "UNITS"]
       ELSE LET f == FixLegacy(u)  d2 == DefaultCategory(reg, f) IN
            IF ~IsOk(d2) THEN [k |-> d2.k]
            ELSE IF d2.t = "" THEN [k |-> "TYPE"]          \* Quantity(None, unit): "Only str is accepted"
            ELSE SimpleQuantity(reg, d2.t, f)
QOut(q) == IF q.k = "ok" THEN Out("ok", <<q.c, q.u, q.qt>>, "", Zero, FALSE) ELSE Exc(q.k)

\* UnitDatabase.Convert(category_or_quantity_type, from, to, x) for a number x
ConvertOut(reg, q, u, v, x) ==
  IF u = v THEN OkX(x)                                   \* same-unit shortcut: no validation at all
  ELSE LET known == q \in DOMAIN reg.cats \/ q \in DOMAIN reg.order
           qt == IF q \in DOMAIN reg.cats THEN reg.cats[q].qt ELSE q IN
       IF ~known THEN Exc("UNITS")
       ELSE LET a == GetInfo(reg, qt, u, TRUE)  b == GetInfo(reg, qt, v, TRUE) IN
            IF ~a.ok \/ ~b.ok THEN Exc("UNITS")
            ELSE OkX(RDiv(RMul(x, Factor(reg, a.u)), Factor(reg, b.u)))

\* limits of a category applied to an amount in the category's default unit (Quantity.CheckValue)
InLimits(k, x) ==
  /\ (k.min.has => IF k.minx THEN RLt(R(k.min.v), x) ELSE RLe(R(k.min.v), x))
  /\ (k.max.has => IF k.maxx THEN RLt(x, R(k.max.v)) ELSE RLe(x, R(k.max.v)))

\* Quantity.ConvertScalarValue of a simple quantity (qt, u) to unit v
QConvert(reg, qt, u, v, x) ==
  IF u = v THEN OkX(x)
  ELSE LET b == GetInfo(reg, qt, v, TRUE) IN
       IF ~b.ok THEN Exc("UNITS") ELSE OkX(RDiv(RMul(x, Factor(reg, u)), Factor(reg, b.u)))
\* IsValid() of a Scalar with simple quantity q and value x: CheckValue converts to the default unit
ValidValue(reg, q, x) ==
  LET k == reg.cats[q.c] IN
  IF ~k.min.has /\ ~k.max.has THEN TRUE
  ELSE LET y == QConvert(reg, q.qt, q.u, k.du, x) IN IsOk(y) /\ InLimits(k, y.x)

\* Scalar(category)            -> default value in the default unit
\* Scalar(category, unit = u)  -> default value converted to u
\* Scalar(1, u)                -> unit alone (default category must resolve)
\* result: s = <<category, unit, qtype>>, x = value, b = IsValid()
ScalarOut(reg, c, u, form) ==
  IF form = "U" THEN
       LET q == Obtain(reg, u, NONE) IN
       IF q.k # "ok" THEN Exc(q.k) ELSE Out("ok", <<q.c, q.u, q.qt>>, "", One, ValidValue(reg, q, One))
  ELSE IF c \notin DOMAIN reg.cats THEN Exc("UNITS")
  ELSE LET k == reg.cats[c] IN
       IF form = "C" THEN
            LET q == SimpleQuantity(reg, c, k.du) IN
            IF q.k # "ok" THEN Exc(q.k) ELSE Out("ok", <<q.c, q.u, q.qt>>, "", R(k.dv), ValidValue(reg, q, R(k.dv)))
       ELSE LET q0 == SimpleQuantity(reg, c, k.du) IN               \* _GetDefaultValue(category_info, unit)
            IF q0.k # "ok" THEN Exc(q0.k)
            ELSE LET cv == QConvert(reg, q0.qt, q0.u, u, R(k.dv)) IN
                 IF ~IsOk(cv) THEN cv
                 ELSE LET q == SimpleQuantity(reg, c, u) IN
                      IF q.k # "ok" THEN Exc(q.k) ELSE Out("ok", <<q.c, q.u, q.qt>>, "", cv.x, ValidValue(reg, q, cv.x))

\* ---- FindUnitCase(category, unit): the unit of the category's quantity type that equals the given one when case is ignored -----
LowerCh(c) == CASE c = "A" -> "a" [] c = "B" -> "b" [] c = "C" -> "c" [] c = "D" -> "d" [] c = "E" -> "e" [] c = "F" -> "f" [] c = "G" -> "g"
                [] c = "H" -> "h" [] c = "I" -> "i" [] c = "J" -> "j" [] c = "K" -> "k" [] c = "L" -> "l" [] c = "M" -> "m" [] c = "N" -> "n"
                [] c = "O" -> "o" [] c = "P" -> "p" [] c = "Q" -> "q" [] c = "R" -> "r" [] c = "S" -> "s" [] c = "T" -> "t" [] c = "U" -> "u"
                [] c = "V" -> "v" [] c = "W" -> "w" [] c = "X" -> "x" [] c = "Y" -> "y" [] c = "Z" -> "z" [] OTHER -> c
RECURSIVE LowerS(_, _)
LowerS(s, i) == IF i > Len(s) THEN "" ELSE LowerCh(SubSeq(s, i, i)) \o LowerS(s, i + 1)
Lower(s) == LowerS(s, 1)
FindUnitCase(reg, c, u) ==
  IF c \notin DOMAIN reg.cats THEN Exc("UNITS")
  ELSE LET qt == reg.cats[c].qt
           m  == { x \in UnitSet(reg, qt) : Lower(x) = Lower(u) } IN
       IF qt \notin DOMAIN reg.order THEN Exc("UNITS")
       ELSE IF Cardinality(m) = 1 THEN OkT(CHOOSE x \in m : TRUE) ELSE Exc("ASSERT")

\* ---- the reference outcome and effect of a call c = [op, a] -------------------------------------
IsRegistration(op) == op \in {"AddUnit", "AddUnitBase", "AddUnitBad", "AddCategory", "Clear"}
Effect(reg, c) ==
  CASE c.op = "AddUnit"     -> RegAddUnit(reg, c.a.qt, c.a.u, FALSE, c.a.dc)
    [] c.op = "AddUnitBase" -> RegAddUnit(reg, c.a.qt, c.a.u, TRUE, NONE)
    \* AddUnit with a conversion expression that is not one (a string without the %f / x placeholder): the expressions are compiled
    \* before anything is looked up or touched, so the call is rejected (AssertionError) whatever the symbol, and leaves no trace
    [] c.op = "AddUnitBad"  -> [out |-> Exc("ASSERT"), reg |-> reg]
    [] c.op = "AddCategory" -> RegAddCategory(reg, c.a)
    [] c.op = "Clear"       -> [out |-> Ok, reg |-> Reg0]
    [] c.op = "CheckCategoryUnit"     -> [out |-> IF ValidNow(reg, c.a.c, c.a.u) THEN Ok ELSE Exc("UNITS"), reg |-> reg]
    [] c.op = "CheckQuantityTypeUnit" -> [out |-> IF TypeHasUnit(reg, c.a.qt, c.a.u) THEN Ok ELSE Exc("UNITS"), reg |-> reg]
    [] c.op = "GetValidUnits"   -> [out |-> ValidUnits(reg, c.a.c, 3), reg |-> reg]
    [] c.op = "GetDefaultUnit"  -> [out |-> IF c.a.c \in DOMAIN reg.cats THEN OkT(reg.cats[c.a.c].du) ELSE Exc("UNITS"), reg |-> reg]
    [] c.op = "GetDefaultValue" -> [out |-> IF c.a.c \in DOMAIN reg.cats THEN OkX(R(reg.cats[c.a.c].dv)) ELSE Exc("UNITS"), reg |-> reg]
    [] c.op = "GetBaseUnit"     -> [out |-> IF c.a.qt \in DOMAIN reg.order THEN OkT(reg.order[c.a.qt][1]) ELSE Exc("UNITS"), reg |-> reg]
    [] c.op = "GetUnits"        -> [out |-> IF c.a.qt \in DOMAIN reg.order THEN OkS(reg.order[c.a.qt]) ELSE Exc("UNITS"), reg |-> reg]
    [] c.op = "CountUnits"      -> [out |-> OkX(R(Cardinality(DOMAIN reg.units))), reg |-> reg]     \* len(GetUnits()): all units of all types
    [] c.op = "FindUnitCase"    -> [out |-> FindUnitCase(reg, c.a.c, c.a.u), reg |-> reg]
    [] c.op = "GetQuantityType" -> [out |-> OkT(IF c.a.u \in DOMAIN reg.units THEN reg.units[c.a.u].qt ELSE ""), reg |-> reg]
    [] c.op = "GetDefaultCategory" -> [out |-> DefaultCategory(reg, c.a.u), reg |-> reg]
    [] c.op = "Convert"         -> [out |-> ConvertOut(reg, c.a.q, c.a.u, c.a.v, c.a.x), reg |-> reg]
    [] c.op = "Obtain"          -> [out |-> QOut(Obtain(reg, c.a.u, c.a.c)), reg |-> reg]
    [] c.op = "Scalar"          -> [out |-> ScalarOut(reg, c.a.c, c.a.u, c.a.form), reg |-> reg]
    [] c.op = "ObjGetValidUnits" ->    \* Scalar(category, unit = u).GetValidUnits(): the category's list + own unit
         [out |-> LET s == ScalarOut(reg, c.a.c, c.a.u, "CU")  v == ValidUnits(reg, c.a.c, 3) IN
                  IF ~IsOk(s) THEN s ELSE IF ~IsOk(v) THEN v
                  ELSE OkS(IF s.s[2] \in ToSet(v.s) THEN v.s ELSE Append(v.s, s.s[2])), reg |-> reg]

\* ---- C14: well-formedness of a registry ----------------------------------------------------------
Well_UnitOneType(reg) ==
  /\ \A qt \in DOMAIN reg.order : \A i \in 1..Len(reg.order[qt]) :
        reg.order[qt][i] \in DOMAIN reg.units /\ reg.units[reg.order[qt][i]].qt = qt
  /\ \A u \in DOMAIN reg.units : Cardinality({ qt \in DOMAIN reg.order : u \in UnitSet(reg, qt) }) = 1
  /\ \A qt \in DOMAIN reg.order : \A i, j \in 1..Len(reg.order[qt]) : reg.order[qt][i] = reg.order[qt][j] => i = j
\* required of every quantity type for which a base unit has been registered (DESIGN 8)
Well_BaseFirstIdentity(reg, based) == \A qt \in based : qt \in DOMAIN reg.order => reg.units[reg.order[qt][1]].ident
Well_Cats(reg) == \A c \in DOMAIN reg.cats : LET k == reg.cats[c] IN
  /\ k.qt \in DOMAIN reg.order
  /\ k.du \in UnitSet(reg, k.qt)
  /\ (k.valid.has => \A i \in 1..Len(k.valid.s) : k.valid.s[i] \in UnitSet(reg, k.qt))
  /\ (k.min.has => IF k.minx THEN k.dv > k.min.v ELSE k.dv >= k.min.v)
  /\ (k.max.has => IF k.maxx THEN k.dv < k.max.v ELSE k.dv <= k.max.v)
\* every category builds a valid Scalar from its defaults, and with every unit of its type
Well_Buildable(reg) ==
  /\ \A c \in DOMAIN reg.cats : LET s == ScalarOut(reg, c, NONE, "C") IN IsOk(s) /\ s.b
  /\ \A c \in DOMAIN reg.cats : \A u \in UnitSet(reg, reg.cats[c].qt) :
        LET s == ScalarOut(reg, c, u, "CU") IN IsOk(s) /\ s.b /\ s.s = <<c, u, reg.cats[c].qt>>
===========================================================================
