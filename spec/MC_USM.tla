------------------------------ MODULE MC_USM ------------------------------
EXTENDS USM
RECURSIVE ToNatS(_, _, _)
ToNatS(s, i, acc) == IF i > Len(s) THEN acc
                     ELSE ToNatS(s, i + 1, acc * 10 + (CHOOSE d \in 0..9 : ToString(d) = SubSeq(s, i, i)))
MaxCallsDef == ToNatS(IOEnv.MAXCALLS, 1, 0)
EveryDef == ToNatS(IOEnv.EVERY, 1, 0)
OffsetDef == ToNatS(IOEnv.OFFSET, 1, 0)
AllOps == {"SetReadOnly", "IsReadOnly", "Register", "DropObject", "SetDefaultUnitRemoved", "SetTemplate", "AddUnitSystem", "RemoveUnitSystem", "SetCurrent", "SetDefaultUnit", "RemoveCategory", "GetNewId",
           "GetCategoryDefaultUnit", "GetCurrentId", "GetUnitSystemById", "GetQuantityDefaultUnit", "ConvertToCurrent", "ConvertScalarToCurrent"}
RoDef == IF IOEnv.OPS \in {"ro", "allro"} THEN BOOLEAN ELSE {FALSE}
OpsDef == IF IOEnv.OPS = "ro" THEN {"AddUnitSystem", "RemoveUnitSystem", "SetCurrent", "SetDefaultUnit", "RemoveCategory", "SetReadOnly", "IsReadOnly"}
          ELSE IF IOEnv.OPS = "allro" THEN AllOps
          ELSE IF IOEnv.OPS = "mut" THEN {"Register", "DropObject", "SetDefaultUnitRemoved", "SetTemplate", "AddUnitSystem", "RemoveUnitSystem", "SetCurrent", "SetDefaultUnit", "RemoveCategory"}
          ELSE AllOps \ {"SetReadOnly", "IsReadOnly"}
TypeDef == [x \in {"length", "depth", "time", "m", "cm", "km", "s", "min"} |-> IF x \in {"length", "depth", "m", "cm", "km"} THEN "length" ELSE "time"]
FactorDef == [u \in {"m", "cm", "km", "s", "min"} |-> CASE u = "m" -> <<1, 1>> [] u = "cm" -> <<1, 100>> [] u = "km" -> <<1000, 1>> [] u = "s" -> <<1, 1>> [] u = "min" -> <<60, 1>>]
=============================================================================
