------------------------------ MODULE MC_C10 ------------------------------
(* C10 - Array results equal element-wise Scalar results for every container kind.           *)
(* Two operands are built from recipes (an atom, or one product / quotient of atoms - the    *)
(* same seeds as in QAlg.tla) with element values xs, ys; for each of the five operators    *)
(* TLC predicts, element by element with QAlg's own operators, whether the operation is      *)
(* accepted, the resulting composing map and the amounts.  The harness instantiates every    *)
(* row with all combinations of list / tuple / ndarray containers (and integer ndarrays),    *)
(* lengths 0..n and mismatching lengths, and also executes the Scalar side on the code.      *)
EXTENDS QAlg, MC_QAlgDefs
Xs == <<R(2), R(-3), <<5, 2>>>>
Ys == <<R(5), R(4), R(-1)>>
L == Len(Xs)
ValX(r, x) == IF r.op = "" THEN Val(r.a, x)
              ELSE IF r.op = "Raw" THEN [q |-> <<Ent(r.a[1], r.a[2], 1), Ent(r.b[1], r.b[2], 1)>>, v |-> x]       \* the ordered map taken as it is
              ELSE MulDiv(Val(r.a, x), Val(r.b, One), r.op).val
ArrOps == {"Add", "Sub", "Mul", "Div", "FloorDiv"}
Elem(r1, r2, op, i) == IF op \in {"Add", "Sub"} THEN SumSub(ValX(r1, Xs[i]), ValX(r2, Ys[i]), op) ELSE MulDiv(ValX(r1, Xs[i]), ValX(r2, Ys[i]), op)
Row(r1, r2, op) == Only({ [r1 |-> r1, r2 |-> r2, op |-> op, ok |-> e[1].ok, exc |-> e[1].exc, q |-> e[1].val.q,
                           vs |-> [i \in 1..L |-> e[i].val.v]] : e \in {[i \in 1..L |-> Elem(r1, r2, op, i)]} })
ASSUME JsonSerialize(IOEnv.OUT_FILE, [rows |-> { Row(r1, r2, op) : r1 \in Recipes, r2 \in Recipes, op \in ArrOps }, xs |-> Xs, ys |-> Ys])
=============================================================================
