-------------------------------- MODULE QAlg --------------------------------
(* The quantity algebra of barril as a state machine over an append-only pool of Scalars.    *)
(* A value descriptor is [q, v]: q = composing map as a sequence of entries [c, u, e]        *)
(* (category, unit, exponent; <<>> = the empty quantity), v = exact rational amount.         *)
(* Transcribed from unit_database.py (_MatchQuantities, _ConvertMatching,                    *)
(* _DoOperationWithSameQuantity, _DoOperationResultingInNewQuantity), _scalar.py (operators, *)
(* __pow__, __lt__) and _quantity.py (string builders, ConvertScalarValue).                  *)
(* The unit table (quantity type, slope, offset, registered name of each unit; quantity type *)
(* of each category) is exported from the running default database (QTAB_FILE).              *)
(*                                                                                           *)
(* Properties are stated independently of the algorithms they judge:                         *)
(*   C03  sums: left operand's units/categories, value = a.v +- Reexpress(b in a's units)    *)
(*   C04  products: dimension vectors add, base magnitudes multiply, no zero exponent stays  *)
(*   C05  dimensionally incompatible operations raise (units / type error)                   *)
(*   C13  the pool is frozen (operands never change)                                         *)
(*   C20  the rendered unit string parses back to the joined composing units                 *)
EXTENDS Rat, Json, IOUtils, QStr

CONSTANTS Depth, Ops, NSlots, BuildOps, SeedOps, EmitMode, EmitEvery, EmitOffset    \* literal values written into the cfg by the harness

QT(u) == Tab.units[u].qt
Slope(u) == <<Tab.units[u].f[1], Tab.units[u].f[2]>>
Offs(u)  == <<Tab.units[u].o[1], Tab.units[u].o[2]>>
Atoms == { <<Tab.atoms[i][1], Tab.atoms[i][2]>> : i \in 1..Len(Tab.atoms) }
QTs == { QT(u) : u \in UnitNames }

Ent(c, u, e) == [c |-> c, u |-> u, e |-> e]
EmptyFn == [x \in {} |-> 0]

\* ---- conversions inside one quantity type ---------------------------------------------------
ToBaseU(u, x)   == RAdd(RMul(Slope(u), x), Offs(u))
FromBaseU(u, y) == RDiv(RSub(y, Offs(u)), Slope(u))
ConvertU(u, v, x) == IF u = v THEN x ELSE FromBaseU(v, ToBaseU(u, x))          \* UnitDatabase.Convert
\* _ConvertMatching: exponent 1 -> plain (affine) conversion; otherwise scale by (slope ratio) ** exponent
\* (an amount in degC is shifted when converted to K, an amount in degC.s is only scaled when converted to K.s)
ConvertMatching(u, v, e, x, simple) ==
  IF u = v THEN x
  ELSE IF e = 1 /\ (simple \/ ConvertU(u, v, Zero) = Zero) THEN ConvertU(u, v, x)
  ELSE RMul(x, RPow(RSub(ConvertU(u, v, One), ConvertU(u, v, Zero)), e))

\* ---- _MatchQuantities ------------------------------------------------------------------------
RECURSIVE MatchSide(_, _, _, _, _)
MatchSide(q, i, v, used, acc) ==
  IF i > Len(q) THEN [q |-> acc, v |-> v, used |-> used]
  ELSE LET ent == q[i]
           qt  == CatQT(ent.c)
       IN IF qt \notin DOMAIN used
          THEN MatchSide(q, i + 1, v, (qt :> ent.u) @@ used, Append(acc, ent))
          ELSE MatchSide(q, i + 1, ConvertMatching(ent.u, used[qt], ent.e, v, Len(q) = 1), used, Append(acc, [ent EXCEPT !.u = used[qt]]))
\* TLC does not cache LET-bound values while it evaluates an action, so a LET name used k times is evaluated k
\* times (exponentially through nested LETs); values that are used several times are therefore bound by a set
\* comprehension over a singleton, which binds a concrete value:  Only({ Body(x) : x \in {Expensive} })
Only(S) == CHOOSE x \in S : TRUE
Match(a, b) ==
  Only({ Only({ [q1 |-> l.q, v1 |-> l.v, q2 |-> r.q, v2 |-> r.v] : r \in {MatchSide(b.q, 1, b.v, l.used, <<>>)} })
         : l \in {MatchSide(a.q, 1, a.v, EmptyFn, <<>>)} })

\* ---- Multiply / Divide / FloorDivide -----------------------------------------------------------
IdxOf(q, c) == IF \E i \in 1..Len(q) : q[i].c = c THEN CHOOSE i \in 1..Len(q) : q[i].c = c ELSE 0
RECURSIVE Merge(_, _, _, _)
Merge(q1, q2, j, sgn) ==
  IF j > Len(q2) THEN q1
  ELSE LET ent == q2[j]  i == IdxOf(q1, ent.c) IN
       IF i = 0 THEN Merge(Append(q1, [ent EXCEPT !.e = sgn * ent.e]), q2, j + 1, sgn)
       ELSE Merge([q1 EXCEPT ![i].e = @ + sgn * ent.e], q2, j + 1, sgn)
Prune(q) == SelectSeq(q, LAMBDA ent : ent.e # 0 /\ UnitTot(q, ent.u) # 0)
OkV(q, v) == [ok |-> TRUE, exc |-> "", val |-> [q |-> q, v |-> v]]
Fail(f)   == [ok |-> FALSE, exc |-> f, val |-> [q |-> <<>>, v |-> Zero]]
MulDivM(m, op) ==
  IF op # "Mul" /\ m.v2 = Zero THEN Fail("ZERODIV")
  ELSE OkV(Prune(Merge(m.q1, m.q2, 1, IF op = "Mul" THEN 1 ELSE -1)),
           CASE op = "Mul" -> RMul(m.v1, m.v2) [] op = "Div" -> RDiv(m.v1, m.v2) [] op = "FloorDiv" -> RFloor(RDiv(m.v1, m.v2)))
MulDiv(a, b, op) == Only({ MulDivM(m, op) : m \in {Match(a, b)} })

\* ---- Sum / Subtract --------------------------------------------------------------------------------
SumSubM(m, op) ==
  LET f(x, y) == IF op = "Add" THEN RAdd(x, y) ELSE RSub(x, y) IN
  Only({ IF j[1] = j[2] \/ j[2] = {} THEN OkV(m.q1, f(m.v1, m.v2))
         ELSE IF j[1] = {} THEN OkV(m.q2, f(m.v1, m.v2))
         ELSE Fail("UNITS") : j \in {<<JoinedSet(m.q1), JoinedSet(m.q2)>>} })
SumSub(a, b, op) ==
  IF a.q = b.q THEN OkV(a.q, IF op = "Add" THEN RAdd(a.v, b.v) ELSE RSub(a.v, b.v))
  ELSE Only({ SumSubM(m, op) : m \in {Match(a, b)} })

\* ---- Scalar.__pow__: n-fold product for n >= 2, the scalar itself otherwise --------------------
RECURSIVE PowN(_, _, _)
PowN(acc, a, n) == IF n <= 1 THEN acc ELSE Only({ PowN(x.val, a, n - 1) : x \in {MulDiv(acc, a, "Mul")} })
Pow(a, n) == Only({ OkV(x.q, x.v) : x \in {PowN(a, a, n)} })

\* ---- ordering and conversion of a Scalar ------------------------------------------------------------
\* a < b: quantity type strings differ -> TypeError; else compare a.v with b's value in a's unit
Lt(a, b) ==
  IF QtStr(a.q) # QtStr(b.q) THEN [ok |-> FALSE, exc |-> "TYPE", b |-> FALSE]
  ELSE [ok |-> TRUE, exc |-> "", b |-> RLt(a.v, ConvertU(b.q[1].u, a.q[1].u, b.v))]     \* both simple (InScope)
\* GetValue(unit) of a simple Scalar
GetValue(a, u) ==
  IF a.q[1].u = u THEN OkV(a.q, a.v)
  ELSE IF CatQT(a.q[1].c) = "Unknown" THEN OkV(a.q, a.v)        \* the 'Unknown' quantity type takes any unit label and returns the amount as it is
  ELSE IF u \notin UnitNames \/ QT(u) # CatQT(a.q[1].c) THEN Fail("UNITS")
  ELSE OkV(a.q, ConvertU(a.q[1].u, u, a.v))

\* ---- the machine ---------------------------------------------------------------------------------------
VARIABLES pool, hist, seeds
vars == <<pool, hist, seeds>>
View == IF EmitMode # "0" THEN pool ELSE <<pool, Len(hist)>>
InitVals == <<R(2), R(3), R(5), R(7)>>
Val(a, n) == [q |-> <<Ent(a[1], a[2], 1)>>, v |-> n]
\* Initial pool members are "seeds": an atom, or one product / quotient / square of atoms (SeedOps), so that
\* operands with several quantity types, affine units inside derived quantities and exponents arise in short
\* programs.  A seed is a recipe [a, b, op] executed by the replayer on real Scalars; slot k uses values
\* InitVals[2k-1], InitVals[2k].
Recipes == { [a |-> a, b |-> <<"", "">>, op |-> ""] : a \in Atoms }
           \cup { [a |-> a, b |-> b, op |-> o] : a \in Atoms, b \in Atoms, o \in SeedOps \cap {"Mul", "Div"} }
           \cup { [a |-> a, b |-> a, op |-> "Mul"] : a \in (IF "Pow" \in SeedOps THEN Atoms ELSE {}) }
           \* "Raw": a derived quantity built directly from an ordered map (Quantity.CreateDerived) that holds ONE quantity type under two
           \* categories in two different units (3 m.cm) - products never produce such operands, their units are already matched
           \cup { [a |-> p[1], b |-> p[2], op |-> "Raw"] :
                    p \in { x \in (IF "Raw" \in SeedOps THEN Atoms \X Atoms ELSE {}) : x[1][1] # x[2][1] /\ x[1][2] # x[2][2] /\ CatQT(x[1][1]) = CatQT(x[2][1]) } }
SeedVal(r, k) == IF r.op = "" THEN Val(r.a, InitVals[2 * k - 1])
                 ELSE IF r.op = "Raw" THEN [q |-> <<Ent(r.a[1], r.a[2], 1), Ent(r.b[1], r.b[2], 1)>>, v |-> InitVals[2 * k - 1]]
                 ELSE MulDiv(Val(r.a, InitVals[2 * k - 1]), Val(r.b, InitVals[2 * k]), r.op).val
Init == /\ TLCSet(2, 1 + (EmitOffset % 65520))
        /\ \E rs \in [1..NSlots -> Recipes] : seeds = rs /\ pool = [k \in 1..NSlots |-> SeedVal(rs[k], k)]
        /\ hist = <<>>
N == Len(pool)
Apply(c) ==
  CASE c.op \in {"Mul", "Div", "FloorDiv"} -> MulDiv(pool[c.i], pool[c.j], c.op)
    [] c.op \in {"Add", "Sub"} -> SumSub(pool[c.i], pool[c.j], c.op)
    [] c.op = "Pow" -> Pow(pool[c.i], c.n)
    [] c.op = "GetValue" -> GetValue(pool[c.i], c.u)
    [] c.op = "Lt" -> LET r == Lt(pool[c.i], pool[c.j]) IN [ok |-> r.ok, exc |-> r.exc, val |-> [q |-> <<>>, v |-> IF r.b THEN One ELSE Zero]]
Appends(op) == op \in {"Mul", "Div", "FloorDiv", "Add", "Sub", "Pow"}
\* the first Depth-1 steps build operands (BuildOps), the last step may be any enabled operation
AllowedOps == IF Len(hist) < Depth - 1 THEN BuildOps ELSE Ops
InScope(c) ==
  CASE c.op = "Lt" -> (IsSimple(pool[c.i].q) /\ IsSimple(pool[c.j].q)) \/ QtStr(pool[c.i].q) # QtStr(pool[c.j].q)
    [] c.op = "GetValue" -> IsSimple(pool[c.i].q)
    [] OTHER -> TRUE
Step(c) ==
  /\ Len(hist) < Depth /\ c.op \in AllowedOps /\ InScope(c)
  /\ \E r \in {Apply(c)} :
     /\ pool' = IF r.ok /\ Appends(c.op) THEN Append(pool, r.val) ELSE pool
     /\ hist' = Append(hist, [c |-> c, ok |-> r.ok, exc |-> r.exc, val |-> r.val])
     /\ UNCHANGED seeds
Bin(op) == \E i, j \in 1..N : Step([op |-> op, i |-> i, j |-> j, n |-> 0, u |-> ""])
Mul == Bin("Mul")
Div == Bin("Div")
FloorDiv == Bin("FloorDiv")
Add == Bin("Add")
Sub == Bin("Sub")
Less == Bin("Lt")
Power == \E i \in 1..N, n \in {2, 3} : Step([op |-> "Pow", i |-> i, j |-> 0, n |-> n, u |-> ""])
GetVal == \E i \in 1..N, u \in UnitNames : Step([op |-> "GetValue", i |-> i, j |-> 0, n |-> 0, u |-> u])
Next == Mul \/ Div \/ FloorDiv \/ Add \/ Sub \/ Less \/ Power \/ GetVal
Spec == Init /\ [][Next]_vars

MaxExp == 4
InBounds == \A k \in 1..Len(pool) : /\ ~IsBot(pool[k].v)
                                     /\ \A i \in 1..Len(pool[k].q) : pool[k].q[i].e \in -MaxExp..MaxExp

\* ---- emission ---------------------------------------------------------------------------------------------
Descr(x) == [q |-> x.q, v |-> x.v, unit |-> UnitStr(x.q), cat |-> CatStr(x.q), qt |-> QtStr(x.q), name |-> NameStr(x.q)]
LastStep == hist'[Len(hist')]
RAbs(p) == IF IsBot(p) THEN p ELSE <<Abs(p[1]), p[2]>>
RMax(p, q) == IF RLe(p, q) THEN q ELSE p
\* the magnitudes that entered a sum (after matching): the scale against which the observed float is judged
ScaleOf(c) == IF c.op \in {"Add", "Sub"}
              THEN Only({ RMax(RAbs(m.v1), RAbs(m.v2)) : m \in {Match(pool[c.i], pool[c.j])} })
              ELSE Zero
\* a < b between physically equal amounts (a tie): decided by float rounding unless both sides are the same object
TieOf(c) == c.op = "Lt" /\ LastStep.ok /\ IsSimple(pool[c.i].q) /\ IsSimple(pool[c.j].q)
            /\ RCmp(pool[c.i].v, ConvertU(pool[c.j].q[1].u, pool[c.i].q[1].u, pool[c.j].v)) \in {0, 2}
EmitRec == PrintT(<<"TR", ToJson([init |-> seeds, sc |-> ScaleOf(LastStep.c), tie |-> TieOf(LastStep.c),
                                 h |-> [k \in 1..Len(hist') |-> hist'[k].c],
                                 ok |-> LastStep.ok, exc |-> LastStep.exc, res |-> Descr(LastStep.val)])>>)
Emit == CASE EmitMode = "all"    -> EmitRec
          [] EmitMode = "sample" -> /\ TLCSet(2, (TLCGet(2) * 17364) % 65521)     \* multiplicative congruential generator
                                    /\ (TLCGet(2) % EmitEvery = 0 => EmitRec)
          [] EmitMode = "part"   -> /\ TLCSet(2, TLCGet(2) + 1)                      \* partition: process EmitOffset of EmitEvery
                                    /\ (TLCGet(2) % EmitEvery = EmitOffset % EmitEvery => EmitRec)
          [] OTHER -> TRUE

\* ---- the property side: independent abstractions --------------------------------------------------------------
Dim(q) == [t \in QTs |-> FoldSet(LAMBDA i, acc : acc + q[i].e, 0, { i \in 1..Len(q) : CatQT(q[i].c) = t })]
ScaleOnly(q) == \A i \in 1..Len(q) : Offs(q[i].u) = Zero
\* base-unit magnitude: a simple quantity converts with its offset, a derived one scales by slope ** exponent
RECURSIVE BaseMagI(_, _, _)
BaseMagI(q, i, v) == IF i > Len(q) THEN v ELSE BaseMagI(q, i + 1, RMul(v, RPow(Slope(q[i].u), q[i].e)))
BaseMag(x) == IF IsSimple(x.q) THEN ToBaseU(x.q[1].u, x.v) ELSE BaseMagI(x.q, 1, x.v)
\* b's value re-expressed in a's units: per quantity type, the ratio to a's unit raised to the entry's exponent
UnitOfType(q, t) == LET k == { i \in 1..Len(q) : CatQT(q[i].c) = t } IN q[CHOOSE i \in k : \A j \in k : i <= j].u
RECURSIVE ReexI(_, _, _, _)
ReexI(bq, i, v, aq) ==
  IF i > Len(bq) THEN v
  ELSE LET t == CatQT(bq[i].c)
           tgt == UnitOfType(aq, t) IN
       ReexI(bq, i + 1, IF bq[i].e = 1 /\ Len(bq) = 1 THEN ConvertU(bq[i].u, tgt, v)
                        ELSE RMul(v, RPow(RDiv(Slope(bq[i].u), Slope(tgt)), bq[i].e)), aq)
Reexpress(b, a) == ReexI(b.q, 1, b.v, a.q)
OneUnitPerType(q) == \A i, j \in 1..Len(q) : CatQT(q[i].c) = CatQT(q[j].c) => q[i].u = q[j].u
Known(r) == ~IsBot(r)

C03_Sum == [][ LET s == LastStep  c == s.c IN
  c.op \in {"Add", "Sub"} =>
    LET a == pool[c.i]  b == pool[c.j] IN
    IF Dim(a.q) = Dim(b.q) /\ a.q # <<>> /\ b.q # <<>> /\ OneUnitPerType(a.q) /\ OneUnitPerType(b.q)
    THEN /\ s.ok
         /\ [i \in 1..Len(s.val.q) |-> <<s.val.q[i].c, s.val.q[i].u, s.val.q[i].e>>] = [i \in 1..Len(a.q) |-> <<a.q[i].c, a.q[i].u, a.q[i].e>>]
         /\ LET rb == Reexpress(b, a)
                expect == IF c.op = "Add" THEN RAdd(a.v, rb) ELSE RSub(a.v, rb) IN
            (Known(expect) /\ Known(s.val.v)) => s.val.v = expect
         \* hence, for scale-only units, the base magnitudes add
         /\ (ScaleOnly(a.q) /\ ScaleOnly(b.q)) =>
              LET e2 == IF c.op = "Add" THEN RAdd(BaseMag(a), BaseMag(b)) ELSE RSub(BaseMag(a), BaseMag(b)) IN
              (Known(e2) /\ Known(BaseMag(s.val))) => BaseMag(s.val) = e2
    ELSE TRUE ]_vars

C04_Prod == [][ LET s == LastStep  c == s.c IN
  (c.op \in {"Mul", "Div", "FloorDiv"} /\ s.ok) =>
    LET a == pool[c.i]  b == pool[c.j]  r == s.val
        sgn == IF c.op = "Mul" THEN 1 ELSE -1 IN
    /\ \A t \in QTs : Dim(r.q)[t] = Dim(a.q)[t] + sgn * Dim(b.q)[t]
    /\ \A i \in 1..Len(r.q) : r.q[i].e # 0 /\ UnitTot(r.q, r.q[i].u) # 0
    /\ (c.i = c.j /\ c.op = "Div") => r.q = <<>>
    /\ (ScaleOnly(a.q) /\ ScaleOnly(b.q) /\ c.op # "FloorDiv") =>
         LET expect == IF sgn = 1 THEN RMul(BaseMag(a), BaseMag(b)) ELSE RDiv(BaseMag(a), BaseMag(b)) IN
         (Known(expect) /\ Known(BaseMag(r))) => BaseMag(r) = expect ]_vars
C04_Pow == [][ LET s == LastStep  c == s.c IN
  c.op = "Pow" => \A t \in QTs : Dim(s.val.q)[t] = c.n * Dim(pool[c.i].q)[t] ]_vars

\* dimensionally incompatible sums / orderings / conversions raise; the exemption is the empty quantity
C05_FailClosed == [][ LET s == LastStep  c == s.c IN
  /\ (c.op \in {"Add", "Sub"} /\ Dim(pool[c.i].q) # Dim(pool[c.j].q) /\ pool[c.i].q # <<>> /\ pool[c.j].q # <<>>) => (~s.ok /\ s.exc = "UNITS")
  /\ (c.op = "Lt" /\ Dim(pool[c.i].q) # Dim(pool[c.j].q)) => (~s.ok /\ s.exc = "TYPE")
  \* (the statement's exemptions: the 'Unknown' quantity type and dimensionless operands may accept anything)
  /\ (c.op = "GetValue" /\ (c.u \notin UnitNames \/ QT(c.u) # CatQT(pool[c.i].q[1].c)) /\ CatQT(pool[c.i].q[1].c) \notin {"Unknown", "dimensionless"})
        => (~s.ok /\ s.exc = "UNITS")
  /\ ~s.ok => pool' = pool ]_vars

C13_Frozen == [][ \A k \in 1..Len(pool) : pool'[k] = pool[k] ]_vars

\* the rendered unit string of every result parses back (against the atoms the reader knows) to the joined units
InScope_C20(q) == \A p \in JoinedSet(q) : p[2] \in -4..4              \* the property's exponent range
C20_RoundTrip == [][ LET s == LastStep IN (s.ok /\ Appends(s.c.op) /\ s.val.q # <<>> /\ InScope_C20(s.val.q)) =>
                      G!Recovered(UnitStr(s.val.q)) = { p \in JoinedSet(s.val.q) : p[2] # 0 } ]_vars
=============================================================================
