SPECIFICATION Spec
VIEW View
CONSTRAINT Bounded
ACTION_CONSTRAINT Emit
INVARIANT SizeInvariant
INVARIANT CurveInvariant
PROPERTY RejectedChangesNothing
PROPERTY Frozen
PROPERTY ChangingIndexLaw
CHECK_DEADLOCK FALSE
CONSTANTS
