--------------------------- MODULE UnitGrammar ---------------------------
(* The unit table's own grammar, on TLC strings.                                             *)
(*   Parse(sym)    decomposes a symbol into factors over the registered units (C06)          *)
(*   Render(joined) is the specified derived-unit string (C20); Read() parses it back        *)
(*   MakeStr(fs)   is the specified category / quantity-type / unit-name string (C20)        *)
(*   FixLegacy(u)  is the legacy rewrite (C16); LegacyOf generates legacy spellings by       *)
(*                 inverse substitution.                                                     *)
(* TLC strings support Len, \o, SubSeq, ReplaceAllSubSeqs; not Head / indexing.              *)
EXTENDS Integers, Sequences, SequencesExt, FiniteSets, TLC

CONSTANTS Units,     \* set of registered unit symbols (strings)
          Legacy     \* sequence of <<legacy, current>> pairs, in the code's order

Ch(s, i) == SubSeq(s, i, i)
Digits == {"0", "1", "2", "3", "4", "5", "6", "7", "8", "9"}
DigitVal(c) == CASE c = "0" -> 0 [] c = "1" -> 1 [] c = "2" -> 2 [] c = "3" -> 3 [] c = "4" -> 4
                 [] c = "5" -> 5 [] c = "6" -> 6 [] c = "7" -> 7 [] c = "8" -> 8 [] c = "9" -> 9

\* split s on the one-character separator sep at parenthesis depth 0
RECURSIVE SplitI(_, _, _, _, _, _)
SplitI(s, sep, i, depth, cur, acc) ==
  IF i > Len(s) THEN Append(acc, cur)
  ELSE LET c == Ch(s, i) IN
       IF c = "(" THEN SplitI(s, sep, i + 1, depth + 1, cur \o c, acc)
       ELSE IF c = ")" THEN SplitI(s, sep, i + 1, depth - 1, cur \o c, acc)
       ELSE IF c = sep /\ depth = 0 THEN SplitI(s, sep, i + 1, depth, "", Append(acc, cur))
       ELSE SplitI(s, sep, i + 1, depth, cur \o c, acc)
Split(s, sep) == SplitI(s, sep, 1, 0, "", <<>>)

RECURSIVE NumPrefLen(_, _)
NumPrefLen(s, i) == IF i <= Len(s) /\ Ch(s, i) \in Digits THEN NumPrefLen(s, i + 1) ELSE i - 1
RECURSIVE ToNat(_, _, _)
ToNat(s, i, acc) == IF i > Len(s) THEN acc ELSE ToNat(s, i + 1, acc * 10 + DigitVal(Ch(s, i)))

Bad == [ok |-> FALSE, pre |-> 0, atom |-> "", exp |-> 0]
Fac(pre, atom, exp) == [ok |-> TRUE, pre |-> pre, atom |-> atom, exp |-> exp]

\* atom with optional one-digit exponent suffix; whole = may the factor be a registered unit as is
AtomExp(f, whole) ==
  LET n == Len(f) IN
  IF whole /\ f \in Units THEN Fac(1, f, 1)
  ELSE IF n >= 2 /\ Ch(f, n) \in Digits /\ Ch(f, n) # "0" /\ SubSeq(f, 1, n - 1) \in Units
       THEN Fac(1, SubSeq(f, 1, n - 1), DigitVal(Ch(f, n)))
       ELSE Bad
\* factor = [numeric prefix] atom [exponent]; longest registered atom first
Factor(f, whole) ==
  LET r == AtomExp(f, whole) IN
  IF r.ok THEN r
  ELSE LET k == NumPrefLen(f, 1)  n == Len(f) IN
       IF k >= 1 /\ k < n /\ k <= 6 /\ Ch(f, 1) # "0"
       THEN LET rest == AtomExp(SubSeq(f, k + 1, n), TRUE) IN
            IF rest.ok THEN [rest EXCEPT !.pre = ToNat(SubSeq(f, 1, k), 1, 0)] ELSE Bad
       ELSE Bad
Side(s, sgn, whole) ==
  LET fs == Split(s, ".") IN
  [i \in 1..Len(fs) |-> LET r == Factor(fs[i], whole) IN [r EXCEPT !.exp = sgn * r.exp]]
\* nontrivial = TRUE (C06, rows): a symbol that is a single factor must not be explained by
\* itself; nontrivial = FALSE (C20, reading a rendered string): it may.
ParseG(sym, nontrivial) ==
  LET parts == Split(sym, "/") IN
  IF Len(parts) > 2 THEN <<Bad>>
  ELSE LET single == Len(parts) = 1 /\ Len(Split(sym, ".")) = 1
           num == IF Len(parts) = 2 /\ parts[1] = "1" THEN <<>> ELSE Side(parts[1], 1, ~(single /\ nontrivial))
           den == IF Len(parts) = 2 THEN Side(parts[2], -1, TRUE) ELSE <<>>
       IN num \o den
Parse(sym) == ParseG(sym, TRUE)
Read(str)  == ParseG(str, FALSE)
Decomposes(sym) == LET p == Parse(sym) IN Len(p) >= 1 /\ \A i \in 1..Len(p) : p[i].ok

\* ---- rendering (the specification of Quantity.GetUnit for derived quantities) ---------------
\* joined: sequence of <<unit, exp>> in first-seen order, exponents already summed per unit
AbsI(e) == IF e < 0 THEN -e ELSE e
ExpSuffix(e) == IF e = 1 \/ e = -1 THEN "" ELSE ToString(AbsI(e))
RECURSIVE JoinWith(_, _, _)
JoinWith(fs, i, sep) == IF i > Len(fs) THEN ""
                        ELSE (IF i > 1 THEN sep ELSE "") \o fs[i][1] \o ExpSuffix(fs[i][2]) \o JoinWith(fs, i + 1, sep)
RenderSep(joined, densep) ==
  LET pos == SelectSeq(joined, LAMBDA f : f[2] > 0)
      neg == SelectSeq(joined, LAMBDA f : f[2] < 0)
  IN IF neg = <<>> THEN JoinWith(pos, 1, ".")
     ELSE (IF pos = <<>> THEN "1" ELSE JoinWith(pos, 1, ".")) \o "/" \o JoinWith(neg, 1, densep)
Render(joined) == RenderSep(joined, ".")
\* negative control: denominator factors appended without separator (the pinned tree's defect F16)
RenderNoSep(joined) == RenderSep(joined, "")

\* category / quantity type / unit name strings: factors joined by " * ", one " / ", "(x) ** n"
StrFactor(f) == IF AbsI(f[2]) = 1 THEN f[1] ELSE "(" \o f[1] \o ") ** " \o ToString(AbsI(f[2]))
RECURSIVE JoinStr(_, _, _)
JoinStr(fs, i, sep) == IF i > Len(fs) THEN ""
                       ELSE (IF i > 1 THEN sep ELSE "") \o StrFactor(fs[i]) \o JoinStr(fs, i + 1, sep)
MakeStrSep(fs, densep) ==
  LET pos == SelectSeq(fs, LAMBDA f : f[2] > 0)
      neg == SelectSeq(fs, LAMBDA f : f[2] < 0)
  IN IF neg = <<>> THEN JoinStr(pos, 1, " * ")
     ELSE (IF pos = <<>> THEN "1" ELSE JoinStr(pos, 1, " * ")) \o " / " \o JoinStr(neg, 1, densep)
MakeStr(fs) == MakeStrSep(fs, " * ")

\* what a reader recovers from a rendered string
Recovered(str) == LET p == Read(str) IN
  IF \A i \in 1..Len(p) : p[i].ok /\ p[i].pre = 1 THEN { <<p[i].atom, p[i].exp>> : i \in 1..Len(p) } ELSE {<<"?", 0>>}
AsSet(joined) == { joined[i] : i \in { k \in 1..Len(joined) : joined[k][2] # 0 } }

\* ---- legacy -----------------------------------------------------------------------------------
FixLegacy(u) == FoldLeft(LAMBDA acc, p : ReplaceAllSubSeqs(p[2], p[1], acc), u, Legacy)
\* positions where t occurs in s
Occ(s, t) == { i \in 1..(Len(s) - Len(t) + 1) : SubSeq(s, i, i + Len(t) - 1) = t }
ReplaceAtPos(s, i, t, r) == SubSeq(s, 1, i - 1) \o r \o SubSeq(s, i + Len(t), Len(s))
\* legacy spellings of u: one occurrence of a current fragment replaced by its legacy fragment
LegacyOf(u) == UNION { { ReplaceAtPos(u, i, Legacy[k][2], Legacy[k][1]) : i \in Occ(u, Legacy[k][2]) } : k \in 1..Len(Legacy) }
\* all occurrences of one current fragment replaced by its legacy fragment
LegacyAllOf(u) == { ReplaceAllSubSeqs(Legacy[k][1], Legacy[k][2], u) : k \in { j \in 1..Len(Legacy) : Occ(u, Legacy[j][2]) # {} } }
==========================================================================
