INIT Init
NEXT Next
CHECK_DEADLOCK FALSE
CONSTANTS
  QTs <- NoNames
  Units <- NoNames
  Cats <- NoNames
  Legacy <- LegacyDef
  FactorOf <- FactorDef
