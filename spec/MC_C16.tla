------------------------------ MODULE MC_C16 ------------------------------
(* C16 - legacy unit spellings are exact aliases and never capture current units.            *)
(* MODE = "gen":   evaluates the closure properties of the rewrite on the table exported     *)
(*                 from the running code and generates every legacy spelling (inverse        *)
(*                 substitution) plus adversarial strings; writes them to OUT_FILE.          *)
(* MODE = "judge": validates the recorded events of the real code (one per line of           *)
(*                 TRACE_FILE) against FixLegacy / the alias law.                            *)
EXTENDS Integers, Sequences, FiniteSets, TLC, Json, IOUtils, SequencesExt

T == JsonDeserialize(IOEnv.TABLE_FILE)
TUnits == { T.rows[i].unit : i \in 1..Len(T.rows) }
G == INSTANCE UnitGrammar WITH Units <- TUnits, Legacy <- T.legacy

\* ---- closure properties of the rewrite over the real table ----------------------------------
Captured  == { u \in TUnits : G!FixLegacy(u) # u }                      \* must be empty
Spellings == UNION { { <<s, u>> : s \in (G!LegacyOf(u) \cup G!LegacyAllOf(u)) \ {u} } : u \in TUnits }
NotBack   == { p \in Spellings : G!FixLegacy(p[1]) # p[2] }             \* must be empty
NonIdem   == { p \in Spellings : G!FixLegacy(G!FixLegacy(p[1])) # G!FixLegacy(p[1]) }
\* a legacy spelling that is itself a current symbol would be ambiguous
Shadow    == { p \in Spellings : p[1] \in TUnits }

\* ---- adversarial strings for the rewrite function itself ------------------------------------
Frags == { T.legacy[k][1] : k \in 1..Len(T.legacy) } \cup { T.legacy[k][2] : k \in 1..Len(T.legacy) }
           \cup {"k", "1", "/d", "e", "M", "(", "000"}
Adversarial == { x \o y : x \in Frags, y \in Frags } \cup { x \o y \o x : x \in Frags, y \in {"e", "/", "k"} }

ASSUME IOEnv.MODE = "gen" =>
   JsonSerialize(IOEnv.OUT_FILE,
     [captured |-> Captured, spellings |-> Spellings, notback |-> NotBack, nonidem |-> NonIdem,
      shadow |-> Shadow, adversarial |-> Adversarial,
      nonidem_adv |-> { s \in Adversarial : FALSE }])

\* ---- trace validation ------------------------------------------------------------------------
Trace == IF IOEnv.MODE = "judge" THEN ndJsonDeserialize(IOEnv.TRACE_FILE) ELSE <<>>
VARIABLE l
Init == l = 0
Judge(ev) ==
  CASE ev.op = "Fix"   -> /\ G!FixLegacy(ev.input) = ev.output
                          /\ ev.changed = (ev.input # ev.output)
    [] ev.op = "Alias" -> /\ G!FixLegacy(ev.s) = ev.u       \* the event is about a spelling of u
                          /\ ev.legacy = ev.current          \* same outcome through this API entry
                          /\ ev.ok                          \* ... and the legacy spelling is accepted
    \* an exact alias is refused wherever the current spelling is refused (values of another quantity type asked for this unit)
    [] ev.op = "AliasRefused" -> /\ G!FixLegacy(ev.s) = ev.u
                                 /\ ev.legacy = ev.current
                                 /\ ~ev.ok
    [] OTHER -> FALSE
Next == /\ l < Len(Trace)
        /\ l' = l + 1
        /\ IF Judge(Trace[l']) THEN TRUE
           ELSE PrintT(<<"VIOL", ToJson([line |-> l', ev |-> Trace[l']])>>)
Spec == Init /\ [][Next]_l
Consumed == (l = Len(Trace)) => PrintT(<<"DONE", ToJson([lines |-> l])>>)
=============================================================================
