SPECIFICATION Spec
INVARIANT Conserved
INVARIANT PathIndependent
INVARIANT BaseIdentity
INVARIANT OrderKept
PROPERTY SameUnitExact
CONSTRAINT Representable
ACTION_CONSTRAINT Emit
CHECK_DEADLOCK FALSE
