SPECIFICATION Spec
CONSTANTS
  Ids = {"a", "system 1", "system 2"}
  Cats = {"length", "time"}
  Units = {"m", "cm", "km", "s", "min"}
  MaxCalls <- MaxCallsDef
  Ops <- OpsDef
  TypeOf <- TypeDef
  FactorOf <- FactorDef
  EmitEvery <- EveryDef
  EmitOffset <- OffsetDef
  RoVals <- RoDef
VIEW View
ACTION_CONSTRAINT Emit
INVARIANT IdsUnique
INVARIANT CurrentRegistered
INVARIANT MapsOfRegistered
PROPERTY AcceptCovers
PROPERTY AddSelectsWhenNone
PROPERTY RemoveSelectsAnother
PROPERTY Atomic
PROPERTY NotifyExactly
PROPERTY OwnMapping
PROPERTY ObjectsFollowSelection
PROPERTY ObjectsOtherwiseUntouched
PROPERTY ReadOnlyIsOnlyAFlag
CHECK_DEADLOCK FALSE
