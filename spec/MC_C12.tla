------------------------------ MODULE MC_C12 ------------------------------
(* Model instance of Validation.tla: TLC checks the scalar, array and tuple laws by          *)
(* enumeration and writes the predicted verdict of every case to OUT_FILE; the harness runs  *)
(* every case on a fresh database (Scalar / FractionScalar / Array in list, tuple, ndarray   *)
(* and tuple-of-tuples containers) and compares verdict, reported operator and limit.        *)
EXTENDS Validation, Json, IOUtils
Tok(x) == IF x = NAN THEN "NAN" ELSE IF x = PINF THEN "PINF" ELSE IF x = NINF THEN "NINF" ELSE ""
Num(x) == [t |-> Tok(x), n |-> IF IsNum(x) THEN x[1] ELSE 0, d |-> IF IsNum(x) THEN x[2] ELSE 1]
CfgJ(c) == [min |-> c.min.has, minv |-> c.min.v[1], max |-> c.max.has, maxv |-> c.max.v[1], minx |-> c.minx, maxx |-> c.maxx]
Res(r) == [ok |-> r.ok, op |-> r.op, lim |-> r.lim[1]]
Laws == [scalar |-> ScalarLaw, array |-> ArrayLaw, tuple |-> TupleLaw]
ASSUME IOEnv.MODE = "gen" =>
  JsonSerialize(IOEnv.OUT_FILE,
    [laws |-> Laws,
     scalars |-> { [cfg |-> CfgJ(c), u |-> u, x |-> Num(x), r |-> Res(CheckValue(c, u, x))] : c \in Cfgs, u \in DOMAIN Units, x \in Vals },
     arrays  |-> { [cfg |-> CfgJ(c), u |-> u, xs |-> [i \in 1..Len(xs) |-> Num(xs[i])], r |-> Res(ArrayCheck(c, u, xs)),
                    t |-> Res(FirstBad(c, u, xs, 1))] : c \in Cfgs, u \in DOMAIN Units, xs \in Seqs }])
ASSUME IOEnv.MODE = "laws" => JsonSerialize(IOEnv.OUT_FILE, [laws |-> Laws])
\* ---- recorded long arrays (direction B): verdict and report of the code against ArrayCheck and the per-element law ----
Trace == IF IOEnv.MODE = "judge" THEN ndJsonDeserialize(IOEnv.TRACE_FILE) ELSE <<>>
Val(j) == IF j.t = "NAN" THEN NAN ELSE IF j.t = "PINF" THEN PINF ELSE IF j.t = "NINF" THEN NINF ELSE <<j.n, j.d>>
CfgOf(j) == [min |-> IF j.min THEN Lim(j.minv) ELSE NoLim, max |-> IF j.max THEN Lim(j.maxv) ELSE NoLim, minx |-> j.minx, maxx |-> j.maxx]
Judge(ev) ==
  LET cfg == CfgOf(ev.cfg)
      xs == [i \in 1..Len(ev.xs) |-> Val(ev.xs[i])]
      r == ArrayCheck(cfg, ev.u, xs) IN
  /\ r.ok = ev.ok
  /\ (~r.ok => r.op = ev.rop /\ r.lim[1] = ev.rlim)
  /\ (r.ok <=> \A i \in 1..Len(xs) : ElementOK(cfg, ev.u, xs[i]))
VARIABLE l
Init == l = 0
Next == /\ l < Len(Trace)
        /\ l' = l + 1
        /\ IF Judge(Trace[l']) THEN TRUE ELSE PrintT(<<"VIOL", ToJson([line |-> l', ev |-> Trace[l']])>>)
=============================================================================
