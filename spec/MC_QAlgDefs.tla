---------------------------- MODULE MC_QAlgDefs ----------------------------
(* cfg-level definitions shared by the instances of QAlg.tla *)
Build == {"Mul", "Div", "Pow"}
OpsAll  == {"Mul", "Div", "FloorDiv", "Pow", "Add", "Sub", "Lt", "GetValue"}
OpsSum  == {"Add", "Sub"}
OpsProd == {"Mul", "Div", "FloorDiv", "Pow"}
OpsFail == {"Add", "Sub", "Lt", "GetValue"}
SeedsNone == {}
SeedsMulDiv == {"Mul", "Div", "Pow", "Raw"}
=============================================================================
