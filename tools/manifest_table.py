# executed by gen_manifest.py
NOT_APPLICABLE = {}

add("C16",
    "TLA+ rewrite semantics (UnitGrammar!FixLegacy) evaluated by TLC over the exported table + TLC trace validation of recorded API events",
    "TLC evaluates the closure properties of the legacy rewrite (no capture, idempotence, back-to-current, no shadowing) on every "
    "symbol of the table exported from the running code, generates every legacy spelling by inverse substitution, and validates "
    "as a trace the recorded outcome of every API entry taking a unit string for every spelling (legacy vs current) plus the "
    "rewrite function itself on all symbols, spellings and adversarial strings. Exhaustive over the finite domain the property quantifies over.",
    "Trusted: TLC, the JSON export of the registry (harness/export.py), the projection harness/project.py; legacy spellings are "
    "those derivable by replacing one or all occurrences of one current fragment by its legacy fragment.",
    "DESIGN.md 6/C16")

add("C01",
    "TLC model check of the conversion-walk machine (ConvAlgebra.tla) over coefficient grids + TLC judgement (MC_C01.tla) of an exhaustive "
    "sweep of the shipped tables + replay of TLC-generated conversion transitions over exact real rows",
    "ConvAlgebra.tla models UnitDatabase.Convert as a walk between units of one type with the two Moebius records of each unit; TLC checks "
    "on coefficient grids that the base amount is conserved along every walk (round trip + path independence), that increasing records never "
    "reorder two amounts and that the same-unit step is exact, and exhibits the counterexample for a unit whose two records differ. Every row "
    "of the three shipped databases is judged by TLC against the lemmas' hypothesis (same literal coefficients in both closures, d = 0, "
    "positive slope, closure behaves as its record, identity base first); every ordered unit pair (all ~35k, both POSC builds and FillSimple) "
    "is swept through UnitDatabase.Convert and the measured deviations are judged by TLC; TLC-predicted exact conversions over real rows are "
    "replayed into the code.",
    "Float rounding is observed, not modelled (1e-9 relative threshold defined in the spec, measured worst case < 1e-12). Bounded grids, "
    "not a proof over all coefficients. Quick tier checks path independence through the base unit and one seeded pivot per pair.",
    "DESIGN.md 6/C01")

add("C06",
    "TLA+ unit grammar (UnitGrammar!Parse, SI-prefix relation) evaluated by TLC on every exported table symbol + TLC judgement of the measured "
    "factor ratios (closures and Scalar arithmetic) as a trace",
    "TLC - not the harness - decomposes each of the 1548 symbols with the table's own grammar and relates atomic rows to their SI stems by symbol "
    "and registered name; for each of the ~850 decomposed and ~130 prefixed rows the harness measures the ratio of the row's factor to the "
    "composition of the parts' factors on the real closures and through Scalar arithmetic in two groupings, and TLC judges every ratio "
    "against the precision the table is written in. Exhaustive over the table. 43 rows of the pinned table disagree and are listed as open "
    "known findings keyed by (row, ratio to 6 digits): any other row, or a listed row whose ratio changes, is a violation.",
    "Rows are judged relative to the base unit of their quantity type (and to the base row's own composition when it decomposes). "
    "Blind spot: an atomic, un-prefixed row whose two closures are changed consistently relates to no other row. "
    "Tolerance = half a unit in the last written place of the literals (<= 3 significant digits count as exact).",
    "DESIGN.md 6/C06")

add("C14",
    "TLC model check of the registry machine (Registry.tla / RegOps.tla: one action per registration call, Well_* invariants, Atomic) + replay "
    "of every TLC-generated transition into UnitDatabase + TLC judgement of the shipped databases (MC_C14.tla)",
    "Registry.tla transcribes AddUnit / AddUnitBase / AddCategory (all parameters, checks in the code's order) / Clear and the lookups that "
    "building a Scalar goes through; TLC checks on every reachable state of the bounded instance that every unit belongs to one type, a "
    "registered base is first and identity, categories refer to existing types with default/valid units of the type and a default value "
    "inside the limits, every category and (category, unit) builds a valid Scalar, and that a rejected registration changes nothing. "
    "Every transition TLC generates (BFS-shortest witness history) is replayed on a fresh UnitDatabase and the outcome family/value of "
    "each call plus the whole projected registry (both internal maps) are compared with TLC's prediction. The three shipped databases are "
    "exported and judged by the same predicates; building a Scalar from every category, (category, unit) and unit is validated as a trace.",
    "Bounded: 2 quantity types, 4 units + 2 legacy spellings, 2 categories, histories of 3 calls (quick: depth 2 exhaustive + 1/12 systematic "
    "sample of depth 3; thorough: depth 3 exhaustive replay, depth 4 model check). Trusted: TLC, harness/regworld.py projection.",
    "DESIGN.md 6/C14")

add("C15",
    "TLC refinement check: Registry.tla (with the code's memo and quantity cache) implements the cache-free RegistryRef.tla (PROPERTY RefSpec), "
    "plus Pure / MemoCoherent / ICacheCoherent; replay of every generated transition with warm-vs-fresh comparison; TLC-validated trace of "
    "read-only operations on the real default database",
    "The specification keeps the two caches of the code as variables (verdict memo incl. negative verdicts, interned quantities by request key) "
    "with the code's fill and invalidation rules; TLC checks that every outcome equals the outcome computed from the registry alone (refinement "
    "of the cache-free reference machine), that non-registrations leave the registry unchanged and that both caches are coherent in every "
    "state; the negative control (no invalidation) is rejected by TLC. Every generated transition is replayed: outcomes, registry, memo and "
    "cache contents are compared with the prediction, each query is also compared with the same query on a database built from the history's "
    "registrations only, and the registry projection (valid-unit list contents included) is compared around every step. 1500 (quick) seeded "
    "read-only / failing operations on the real default database are recorded and validated as a trace (digest unchanged, warm = fresh).",
    "Bounded as C14. The caches are projected from the two private attributes the property's anchors name.",
    "DESIGN.md 6/C15")

add("C17",
    "TLC model check of the manager machine (USM.tla: one action per public call, callback log as predicted history variable), inductive "
    "check of its invariants and action properties by TLC over every invariant-satisfying state (MC_USMInd.tla) + replay of "
    "every generated transition and of tlc -simulate behaviours into UnitSystemManager with recording listeners",
    "USM.tla specifies ids, current/null system, template coverage, ownership of mappings and the exact callback log; TLC checks on every "
    "reachable state/transition of the bounded instance that ids are unique, the current system is registered or null, adding while none is "
    "current selects the new system, removing the current one selects another or none, acceptance requires template coverage, a rejected call "
    "changes nothing, listeners are notified exactly for changes of current and for default-unit changes of the current system, and a change "
    "through one system changes no other. Every generated transition (BFS-shortest history) and thousands of random deep behaviours of the "
    "same specification are replayed on a fresh manager: outcome, ids in order, current, every mapping, template, the callback log and the "
    "caller's own dicts (passed as the same object for the same literal) are compared with the prediction; ConvertToCurrent / "
    "ConvertScalarToCurrent results are compared on the real default database. The machine also carries the read-only flag of the systems "
    "(ReadOnlyIsOnlyAFlag) and tracked client objects. MC_USMInd.tla: every state over 2 ids x 2 categories x 2 (quick) / 4 (thorough) units x "
    "templates x tracked objects x flags that satisfies the state invariants - reachable or not - takes every call once; the invariants hold "
    "again (they are inductive: they hold after histories of any length) and every action property holds for the step.",
    "Bounded: 3 ids, 2 mutable categories + 1 query-only category, 4 units, 3 mapping literals; depth 4 (quick) / 6 (thorough) model check; "
    "SetCurrent selects registered systems or None; re-selection may notify (the code does).",
    "DESIGN.md 6/C17")

_QALG = ("QAlg.tla transcribes _MatchQuantities / _ConvertMatching / Sum-Subtract / Multiply-Divide-FloorDivide / __pow__ / __lt__ / "
         "ConvertScalarValue and the string builders over an append-only pool of Scalars whose initial members are atoms or one product / "
         "quotient / square of atoms of the real default database (9 (category, unit) atoms incl. two categories of one type, scaled and "
         "affine units); the unit table is exported from the running code. ")
_QNOTE = ("Bounded: two seeds + 1 step and two atoms + 3 steps (quick; pseudo-random 1/k sample of the transitions replayed), two seeds + 2 steps "
          "(thorough model check, all 1-step transitions replayed). Float rounding observed, judged at 1e-9 relative to the magnitudes that "
          "entered the operation. Trusted: TLC, harness/qalg.py projection.")

add("C03",
    "TLC model check of the quantity-algebra machine (QAlg.tla, action property C03_Sum stated with an independent re-expression operator) "
    "+ replay of generated transitions on real Scalars",
    _QALG + "C03_Sum: for dimension-compatible operands the sum/difference has the left operand's composing map and the value a.v +- b "
    "re-expressed per unit ratio raised to the exponent (affine conversion only for simple quantities); for scale-only units base magnitudes "
    "add. TLC checks it on every transition; every sampled/all transition is executed on real Scalars and outcome family, composing map, "
    "value, strings are compared with the exact prediction.", _QNOTE, "DESIGN.md 6/C03")
add("C04",
    "TLC model check of the quantity-algebra machine (QAlg.tla, C04_Prod / C04_Pow stated on dimension vectors and base magnitudes) + replay",
    _QALG + "C04_Prod/C04_Pow: dimension exponents per quantity type add/subtract, no zero exponent or zero-total unit survives, a/a is "
    "dimensionless, a**n is the n-fold product, base-unit magnitudes multiply/divide (scale-only units; floor division up to flooring).",
    _QNOTE, "DESIGN.md 6/C04")
add("C05",
    "TLC model check (QAlg.tla C05_FailClosed, C13_Frozen) + replay of rejected calls + TLC trace validation (MC_Judge.tla) of incompatible "
    "calls across quantity types of the real table",
    _QALG + "C05_FailClosed: sums of different dimension vectors raise a units error, orderings a type error, conversions to a unit of another "
    "type a units error (exemption: empty quantity), and a failing step leaves the pool unchanged. On the real table 2500 seeded (quick) / all "
    "(thorough) ordered pairs of different quantity types x 17 incompatible calls (Convert, GetValue, CreateCopy, +, -, <, >=, ObtainQuantity, "
    "Scalar/Array/FractionScalar construction and conversion) are recorded with registry and operand projections before/after and validated "
    "by TLC; valid operations are replayed afterwards.", _QNOTE + " 'dimensionless' and 'Unknown' are exempt by the property.", "DESIGN.md 6/C05")
add("C07",
    "Replay of the quantity-algebra machine (QAlg.tla) with a monitor over every cached / seen Quantity + TLC trace validation (MC_Judge.tla) of "
    "request forms, copies, pickles, mutators and a monitored history",
    _QALG + "The pool is append-only in the specification; on the code every quantity in the database's cache and every quantity seen is "
    "re-projected (getters, composing map contents, hash) after each replayed step, ==/hash are compared pairwise with composing-map equality, "
    "copies must be identical and pickles equal. Request forms (unit, unit+category, category only, caption, composing lists, ordered maps incl. "
    "two categories of one type in different units, empty, unknown) x atoms: repeated request identical, equal resolution equal/hash-equal, "
    "different resolution unequal, ReadOnlyError; plus a seeded history of 600 mixed operations (failing ones included) - all validated by TLC.",
    _QNOTE, "DESIGN.md 6/C07")
add("C13",
    "QAlg.tla frame condition C13_Frozen (append-only pool) bound by operand snapshots on every replayed step + TLC trace validation (MC_Judge.tla) "
    "of operand/container projections around seeded operations and of copies/pickles",
    _QALG + "Every pool member is snapshotted before and re-projected after the last step of every replayed transition. 800 (quick) seeded "
    "operations over Scalar / Array (list, tuple, float and integer ndarray) / FixedArray / FractionScalar operands - simple, derived, empty and "
    "unknown-caption - record the projection of every operand and of the caller's own containers around the call (arithmetic, comparison, "
    "conversion, validation, formatting, ChangingIndex) and copy/deepcopy/CreateCopy/pickle results; TLC validates each event.",
    _QNOTE, "DESIGN.md 6/C13")
add("C20",
    "TLC enumeration of the round-trip theorem of the specified rendering (MC_C20.tla, UnitGrammar!Render/Read) + replay of QAlg.tla product "
    "transitions with all strings + TLC trace validation of recorded strings against the composing map the code reports",
    "UnitGrammar.tla specifies the derived-unit string (table grammar) and QStr.tla the category / quantity-type / unit-name strings. TLC proves by "
    "enumeration over all lists of up to 3 distinct atoms with exponents -4..4 that the specified string parses back to the joined units (negative "
    "control: no separator between denominator factors fails). Every product/quotient/power transition of the quantity-algebra machine is "
    "replayed and GetUnit/GetCategory/GetQuantityType/GetUnitName/repr/str compared with the prediction; 1500 (quick) seeded entry lists with up "
    "to 6 factors and repeated quantity types under different categories go through ObtainQuantity and TLC compares the code's strings with "
    "Render/MakeStr of the map the code reports and parses the code's unit string back; every unit and category of the table is checked for the "
    "simple-quantity strings.",
    _QNOTE + " Atoms are table symbols that the grammar does not decompose and that do not end in a digit.", "DESIGN.md 6/C20")

add("C12",
    "TLC enumeration of the validation laws (Validation.tla: CheckValue, NaN-skipping array scan, tuple branch vs the per-element statement) + "
    "replay of every predicted verdict on Scalar / FractionScalar / Array containers + TLC trace validation of long arrays",
    "Validation.tla transcribes CheckValue and the Array validation and states the property independently (per element, in the default unit, "
    "NaN skipped in flat arrays, a NaN scalar satisfies no limit; a rejection names an operator/limit some element violates). TLC checks "
    "the scalar, array and tuple laws over 16 limit configurations x 3 units (default, scaled, affine) x 11 values (NaN, +-inf, on / next to / "
    "away from the limits) x all sequences of length <= 3 (every order), and rejects the negative control (infinities converted to NaN). "
    "Every predicted verdict is replayed on a fresh database: Scalar, FractionScalar, Array in list / tuple / ndarray / tuple-of-tuples "
    "containers; verdict, reported operator and limit compared; each validated array is re-created under a category with other limits "
    "(cached verdict) and asked twice; long NaN-rich arrays are recorded and judged by TLC.",
    "Units with conversions exact in binary so that amounts exactly on a limit are decidable. 'Registering a category never yields an invalid "
    "default' is decided by C14 (Well_Cats, Inv_Buildable).", "DESIGN.md 6/C12")
add("C18",
    "TLC as the oracle: exact rational table of every Fraction operator (Fraction.tla / MC_C18.tla) replayed on barril.basic.fraction + TLC "
    "trace validation of CreateFromFloat, format/parse, copy and FractionScalar-vs-Scalar routes",
    "TLC computes with exact rationals the result of + - * / % neg abs inv ** and the comparison of every ordered pair of a pool of 108 "
    "fractions (numerators -6..6, denominators 1..8, short decimals), and the amount and order of 63 x 63 FractionValues; the code is run on "
    "every row (Fraction operands, plain numbers on either side, the decimal-normalising constructor) and compared exactly. Seeded "
    "CreateFromFloat inputs (up to 8 significant decimals, exponents -8..3) are recorded and judged by TLC on nine significant digits "
    "(plus |fraction| < 1, sign rule); format-then-parse and copy must return the same parts; a history that changes a FractionValue's "
    "fraction in place after reading it is checked; FractionScalar conversion / CreateCopy / ordering is compared with a Scalar holding "
    "float(value) over unit pairs of every quantity type of the real table (affine units included), judged by TLC.",
    "FractionScalar validation is covered by C12. The continued-fraction algorithm and the parsing regular expression are not transcribed; "
    "their post-conditions are.", "DESIGN.md 6/C18")

add("C02",
    "TLC trace validation (MC_C02.tla) of an exhaustive-by-type sweep of every public conversion route against UnitDatabase.Convert on the real table",
    "For unit pairs of every quantity type (all ordered pairs for small types, seeded pairs incl. pairs through the base unit otherwise) and a "
    "category sharing the quantity type (not only the default one), 30+ routes - Scalar.GetValue, CreateCopy(unit=), ChangeScalars, "
    "Quantity.ConvertScalarValue / Convert, UnitDatabase.Convert on float / int / list / tuple / ndarray, Array.GetValues and CreateCopy in "
    "every container kind incl. tuple-of-tuples, FixedArray.IndexAsScalar / ChangingIndex, the exponent form on derived quantities, "
    "UnitSystemManager.ConvertToCurrent / ConvertScalarToCurrent - are executed and the worst element-wise deviation from the float "
    "conversion (ppt of the magnitudes that entered it), the category, quantity type, unit, container kind and length of the result are "
    "recorded; own-unit queries of simple and derived objects and category defaults in non-default units likewise. TLC validates every event.",
    "The generic conversion code is additionally modelled in ConvAlgebra.tla (C01) and QAlg.tla (GetValue of C05). Tolerance 1e-9 (measured: routes "
    "are bit-identical).", "DESIGN.md 6/C02")
add("C08",
    "TLC-predicted order matrix (MC_C08.tla: exact base amounts, coherence laws checked by TLC) replayed on Scalar / FractionScalar + TLC trace "
    "validation of orderings over the real table and of the ==/!= matrix over all value classes",
    "TLC computes from exact base amounts the six operator results for every ordered pair of a pool containing physically equal amounts in "
    "different units (1 m / 100 cm / 1000 m / 1 km, 60 s / 1 min, ...) and two quantity types (TypeError across), and checks the coherence "
    "laws on the predicted matrix; the matrix is replayed on Scalars and FractionScalars. On the real table seeded unit pairs of every quantity "
    "type x two amounts are compared with the six operators and judged by TLC against the measured sign of the base-unit difference; ordering "
    "across quantity types, against the empty quantity and the Unknown type must raise TypeError. ==/!= over all ordered pairs of 45 objects "
    "(Quantity, Scalar, Array and FixedArray in list / tuple / ndarray containers of equal and different lengths, FractionScalar, "
    "FractionValue, Fraction, Curve, UnitSystem, None, str, int, float, tuple) are recorded and judged: never raise, symmetric, != negates, "
    "reflexive, equal hashable objects hash equal.",
    "Ties only where both conversions are exact in binary; pairs closer than 1e-9 relative are not generated (DESIGN 8).", "DESIGN.md 6/C08")
add("C09",
    "TLC-computed table (MC_C09.tla) of quantity x operator x number x amount -> resulting composing map and amount, replayed with every "
    "number type, operand order and container kind",
    "The specification states the result of the ten operators between a value and a plain number independently of the Python type of the "
    "number, of which operand is on the left and of the container: same composing map (reciprocal map for k/x, k//x) and the operation "
    "applied to the amounts. TLC evaluates it with exact rationals for simple, derived and squared quantities; every row is instantiated "
    "with int / float / numpy.float64 / numpy.int64 numbers and a numpy array operand, Scalar, Array and FixedArray in list / tuple / float "
    "ndarray / integer ndarray containers; result class, composing map and values are compared.",
    "Numbers and amounts exact in binary (no floor-division boundary); complex / bool / single precision not generated.", "DESIGN.md 6/C09")
add("C10",
    "TLC element-wise prediction table (MC_C10.tla over QAlg.tla's operators) replayed on Arrays in every container combination, with the "
    "Scalar side executed on the code",
    "For 78 x 78 operand recipes (atom or one product/quotient of 6 atoms incl. two categories of one type and affine units) x 5 operators TLC "
    "predicts with the operators of QAlg.tla, element by element, acceptance, the resulting composing map and the amounts. Rows are "
    "instantiated with list / tuple / ndarray containers on both sides: outcome family, composing map and element values are compared with "
    "the prediction; the same operation on the corresponding Scalars is executed on the code (values and quantity equal); results must "
    "not depend on the container kinds; empty operands give an empty Array of the predicted quantity; operands of different lengths are "
    "rejected; an integer ndarray against a fractional list is compared with the Scalars; FromScalars + indexing returns the amounts.",
    "quick: 15 % of the rows x 2 seeded container combinations; thorough: all rows x 9 combinations.", "DESIGN.md 6/C10")
add("C11",
    "TLC model check of the FixedArray / Curve machine (FixedArr.tla: SizeInvariant, CurveInvariant, RejectedChangesNothing, ChangingIndexLaw) "
    "+ replay of every generated transition",
    "FixedArr.tla transcribes the dimension resolution of every entry route (constructor forms, CreateWithQuantity with/without dimension, "
    "CreateEmptyArray, CreateCopy with/without values and to another unit, pickling, arithmetic, ChangingIndex in four value forms, "
    "IndexAsScalar) and Curve's SetImage / SetDomain; TLC checks len(values) = dimension >= 2 for every array ever obtained, equal image "
    "and domain lengths, that a rejected call changes nothing and that ChangingIndex differs from its source only at the index where it holds "
    "the supplied amount, over dimensions and lengths 0..4 and chains of 3 (quick) / 4 (thorough) calls. Every transition to depth 2 and a "
    "1/4 sample of depth 3 (thorough: all) is replayed with seeded container kinds: outcome family, dimension, values, unit, sources unchanged. "
    "MC_FixedArrInd.tla adds an inductive check by TLC: every pool of up to two arrays satisfying SizeInvariant and every curve satisfying "
    "CurveInvariant (reachable or not) takes every call once - the invariants hold again and the action properties hold for the step, i.e. for "
    "histories of any length.",
    "Bounded; pool of at most 3 arrays.", "DESIGN.md 6/C11")
add("C19",
    "TLC trace validation (MC_C19.tla: default category computed by TLC from the exported table) of every documented construction form over all "
    "units, categories and (unit, category) pairs of the real table",
    "For all 1548 units the forms X(v,u), X(v,u,c), X(c,v,u), X((v,u)), X(quantity, v), CreateWithQuantity of Scalar, Array, FixedArray and "
    "FractionScalar are built (values cycle through python / numpy numbers, containers through list / tuple / ndarray) and their projections "
    "recorded; TLC requires all forms identical and pairwise ==, the unit's quantity type, and the category TLC computes from the exported table "
    "(per-unit default_category, else the category named like the type). For every category the explicit-category forms over units of its type, "
    "and the object built from the category alone against (default value, default unit, category); eval(repr(s)) == s for every simple Scalar.",
    "quick: up to 6 seeded units per category for the explicit-category forms; thorough: all.", "DESIGN.md 6/C19")
