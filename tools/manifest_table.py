# executed by gen_manifest.py
NOT_APPLICABLE = {}

add("C16",
    "TLA+ rewrite semantics (UnitGrammar!FixLegacy) evaluated by TLC over the exported table + TLC trace validation of recorded API events",
    "TLC evaluates the closure properties of the legacy rewrite (no capture, idempotence, back-to-current, no shadowing) on every "
    "symbol of the table exported from the running code, generates every legacy spelling by inverse substitution, and validates "
    "as a trace the recorded outcome of every API entry taking a unit string for every spelling (legacy vs current) plus the "
    "rewrite function itself on all symbols, spellings and adversarial strings. Exhaustive over the finite domain the property quantifies over.",
    "Trusted: TLC, the JSON export of the registry (harness/export.py), the projection harness/project.py; legacy spellings are "
    "those derivable by replacing one or all occurrences of one current fragment by its legacy fragment.",
    "DESIGN.md 6/C16")
