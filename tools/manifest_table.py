# executed by gen_manifest.py
NOT_APPLICABLE = {}

add("C16",
    "TLA+ rewrite semantics (UnitGrammar!FixLegacy) evaluated by TLC over the exported table + TLC trace validation of recorded API events",
    "TLC evaluates the closure properties of the legacy rewrite (no capture, idempotence, back-to-current, no shadowing) on every "
    "symbol of the table exported from the running code, generates every legacy spelling by inverse substitution, and validates "
    "as a trace the recorded outcome of every API entry taking a unit string for every spelling (legacy vs current) plus the "
    "rewrite function itself on all symbols, spellings and adversarial strings. Exhaustive over the finite domain the property quantifies over.",
    "Trusted: TLC, the JSON export of the registry (harness/export.py), the projection harness/project.py; legacy spellings are "
    "those derivable by replacing one or all occurrences of one current fragment by its legacy fragment.",
    "DESIGN.md 6/C16")

add("C01",
    "TLC model check of the conversion-walk machine (ConvAlgebra.tla) over coefficient grids + TLC judgement (MC_C01.tla) of an exhaustive "
    "sweep of the shipped tables + replay of TLC-generated conversion transitions over exact real rows",
    "ConvAlgebra.tla models UnitDatabase.Convert as a walk between units of one type with the two Moebius records of each unit; TLC checks "
    "on coefficient grids that the base amount is conserved along every walk (round trip + path independence), that increasing records never "
    "reorder two amounts and that the same-unit step is exact, and exhibits the counterexample for a unit whose two records differ. Every row "
    "of the three shipped databases is judged by TLC against the lemmas' hypothesis (same literal coefficients in both closures, d = 0, "
    "positive slope, closure behaves as its record, identity base first); every ordered unit pair (all ~35k, both POSC builds and FillSimple) "
    "is swept through UnitDatabase.Convert and the measured deviations are judged by TLC; TLC-predicted exact conversions over real rows are "
    "replayed into the code.",
    "Float rounding is observed, not modelled (1e-9 relative threshold defined in the spec, measured worst case < 1e-12). Bounded grids, "
    "not a proof over all coefficients. Quick tier checks path independence through the base unit and one seeded pivot per pair.",
    "DESIGN.md 6/C01")

add("C06",
    "TLA+ unit grammar (UnitGrammar!Parse, SI-prefix relation) evaluated by TLC on every exported table symbol + TLC judgement of the measured "
    "factor ratios (closures and Scalar arithmetic) as a trace",
    "TLC - not the harness - decomposes each of the 1548 symbols with the table's own grammar and relates atomic rows to their SI stems by symbol "
    "and registered name; for each of the ~850 decomposed and ~130 prefixed rows the harness measures the ratio of the row's factor to the "
    "composition of the parts' factors on the real closures and through Scalar arithmetic in two groupings, and TLC judges every ratio "
    "against the precision the table is written in. Exhaustive over the table. 43 rows of the pinned table disagree and are listed as open "
    "known findings keyed by (row, ratio to 6 digits): any other row, or a listed row whose ratio changes, is a violation.",
    "Rows are judged relative to the base unit of their quantity type (and to the base row's own composition when it decomposes). "
    "Blind spot: an atomic, un-prefixed row whose two closures are changed consistently relates to no other row. "
    "Tolerance = half a unit in the last written place of the literals (<= 3 significant digits count as exact).",
    "DESIGN.md 6/C06")
