#!/bin/sh
# tools/matrix.sh [names...] - runs every seeded change against the check of the property it breaks (quick tier) on a /tmp copy.
cd "$(dirname "$0")/.." || exit 2
names="$@"
[ -z "$names" ] && names=$(ls seeded)
for n in $names; do
  p=$(/venv/bin/python -c "import json;print(json.load(open('seeded/$n/meta.json')).get('property',''))")
  [ -z "$p" ] && continue
  r=$(tools/mutant.sh seeded/$n/patch.diff $p 2>&1 | grep "^== " | head -1)
  echo "MATRIX $n $p :: $r"
done
