#!/bin/sh
# tools/matrix.sh [names...] - runs every seeded change against the check of the property it breaks (quick tier) on a /tmp copy.
# MATRIX_JOBS=n runs n of them at a time (each TLC run uses up to 8 workers and an explicit heap).
cd "$(dirname "$0")/.." || exit 2
names="$@"
[ -z "$names" ] && names=$(ls seeded)
one() {
  n=$1
  p=$(/venv/bin/python -c "import json;print(json.load(open('seeded/$n/meta.json')).get('property',''))")
  [ -z "$p" ] && return
  r=$(tools/mutant.sh seeded/$n/patch.diff $p 2>&1 | grep "^== " | head -1)
  echo "MATRIX $n $p :: $r"
}
if [ "${MATRIX_JOBS:-1}" -gt 1 ]; then
  for n in $names; do echo $n; done | xargs -P "$MATRIX_JOBS" -I{} env MATRIX_JOBS=1 "$(pwd)/tools/matrix.sh" {}
else
  for n in $names; do one $n; done
fi
