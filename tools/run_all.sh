#!/bin/sh
# tools/run_all.sh [quick|thorough] - runs every registered check on /repo's working tree, one after the other
cd "$(dirname "$0")/.." || exit 2
tier=${1:-quick}
for id in C01 C02 C03 C04 C05 C06 C07 C08 C09 C10 C11 C12 C13 C14 C15 C16 C17 C18 C19 C20; do
  s=$(date +%s)
  out=$(./check $id --tier $tier 2>&1 | grep -E "^(OK|VIOLATION|MACHINERY|KNOWN-FINDING)" | grep -vc KNOWN)
  line=$(./check_last 2>/dev/null)
  e=$(date +%s)
  echo "$id $(/venv/bin/python -c "import json;e=json.load(open('evidence/$id.json'));print(e['tier'],'violations=%d'%e['violations'],'wall=%.0fs'%e['wall_s'])") elapsed=$((e-s))s"
done
