#!/usr/bin/env python3
"""Validate MANIFEST.json and evidence/*.json against the task schemas (run with python3-vt: needs jsonschema)."""
import glob, json, sys
import jsonschema
ok = True
m = json.load(open('/verif/MANIFEST.json'))
jsonschema.validate(m, json.load(open('/root/.vp/MANIFEST.schema.json')))
es = json.load(open('/root/.vp/EVIDENCE.schema.json'))
for c in m['checks']:
    p = c['evidence_file']
    try:
        jsonschema.validate(json.load(open(p)), es)
    except Exception as e:
        ok = False
        print('EVIDENCE INVALID', p, str(e)[:300])
print('manifest ok; evidence', 'ok' if ok else 'INVALID')
sys.exit(0 if ok else 1)
