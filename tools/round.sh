#!/bin/sh
# tools/round.sh <suffix> <letter1> <letter2> [ids...] - confirm the two changes each sub-agent of a round left in /tmp/out-<id><suffix>/{1,2},
# keep them as seeded/<id>-<letter>, remove the scratch worktree and run the quick check of the property against each kept change.
cd "$(dirname "$0")/.." || exit 2
suf=$1; l1=$2; l2=$3; shift 3
ids="$@"
[ -z "$ids" ] && ids="C01 C02 C03 C04 C05 C06 C07 C08 C09 C10 C11 C12 C13 C14 C15 C16 C17 C18 C19 C20"
for id in $ids; do
  [ -d /tmp/out-$id$suf/1 ] || { echo "ROUND $id: no output yet"; continue; }
  for k in 1 2; do
    n=$l1; [ $k = 2 ] && n=$l2
    [ -d seeded/$id-$n ] && continue
    r=$(tools/seed_verify.sh /tmp/out-$id$suf/$k $id-$n 2>&1 | tail -1)
    echo "ROUND $r"
  done
  git -C /repo worktree remove --force /tmp/wt-$id$suf 2>/dev/null
  for n in $l1 $l2; do
    [ -d seeded/$id-$n ] && echo "ROUND $id-$n vs $id: $(tools/mutant.sh seeded/$id-$n/patch.diff $id | head -1 | cut -c1-90)"
  done
done
git -C /repo worktree prune
