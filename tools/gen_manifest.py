#!/usr/bin/env python3
"""Regenerates /verif/MANIFEST.json from the table below (single source of truth for the interface)."""
import json
import os

HERE = os.path.dirname(os.path.dirname(os.path.abspath(__file__)))
BASE = "cd /repo && /venv/bin/python -m pytest -ra -q -p no:cacheprovider --timeout=900 --continue-on-collection-errors"

# id -> (category, technique, level text, level note, design ref)
CHECKS = {}


def add(pid, technique, text, note, ref, category="model_checking"):
    CHECKS[pid] = dict(category=category, technique=technique, text=text, note=note, ref=ref)


exec(open(os.path.join(HERE, "tools", "manifest_table.py")).read())

checks = []
for pid in sorted(CHECKS):
    c = CHECKS[pid]
    checks.append({
        "property_id": pid,
        "quick_cmd": "./check %s --tier quick" % pid,
        "thorough_cmd": "./check %s --tier thorough" % pid,
        "evidence_file": "/verif/evidence/%s.json" % pid,
        "replay_cmd_template": "./check %s --replay {path}" % pid,
        "engine": "tlc",
        "level_claimed": {"category": c["category"], "text": c["text"], "design_ref": c["ref"]},
        "level_note": c["note"],
        "technique": c["technique"],
    })
NA = []
allp = [json.loads(l)["id"] for l in open(os.path.join(HERE, "properties.jsonl"))]
na_reasons = globals().get("NOT_APPLICABLE", {})
for pid in allp:
    if pid not in CHECKS:
        NA.append({"property_id": pid, "reason": na_reasons.get(pid, "check not built yet in this round (see DESIGN.md)")})
man = {
    "version": 1,
    "setup_cmd": "./setup.sh",
    "hooks": {
        "guard": "BARRIL_VERIF",
        "enable": "no source hooks: barril is a sequential library whose abstract state is visible through its API; "
                  "the harness imports /repo/src directly (BARRIL_SRC) and records calls by wrapping instances from outside",
        "baseline_off_cmd": BASE,
        "source_commits": [],
        "add_only": True,
    },
    "engines": [{"name": "tlc", "path": "/usr/local/bin/tlc", "serves_properties": sorted(CHECKS),
                 "kind_free_text": "TLC 1.8 explicit-state model checker on /verif/spec/*.tla; conformance by replaying "
                                   "TLC-generated behaviours into barril and validating recorded executions as traces"}],
    "checks": checks,
    "not_applicable": NA,
    "notes": "All properties are decided by the TLA+ specification under /verif/spec checked with TLC and bound to the code "
             "by conformance (spec->code replay and code->spec trace validation). fix: commits in /repo and open findings "
             "are listed in /verif/KNOWN_FINDINGS.jsonl.",
}
with open(os.path.join(HERE, "MANIFEST.json"), "w") as f:
    json.dump(man, f, indent=1)
print("MANIFEST.json: %d checks, %d not applicable" % (len(checks), len(NA)))
