#!/bin/sh
# tools/mutant.sh <patch.diff> <property id>...   - self-test: run checks against a mutated copy of /repo/src
# The copy lives under /tmp and is removed afterwards; /repo is never touched; evidence is not overwritten.
patch="$(readlink -f "$1")"; shift
d=$(mktemp -d /tmp/mut.XXXXXX)
cp -r /repo/src "$d/src"
find "$d" -name __pycache__ -prune -exec rm -rf {} +
if ! (cd "$d" && patch -s -p1 < "$patch"); then echo "PATCH-FAILED $patch"; rm -rf "$d"; exit 3; fi
rc=0
for id in "$@"; do
  BARRIL_SRC="$d/src" VERIF_BUILD_DIR="$d/build" VERIF_EVID_DIR="$d/evidence" VERIF_REPLAY_DIR="$d/replays" \
     "$(dirname "$0")/../check" "$id" --tier "${VERIF_TIER:-quick}" > "$d/out.$id" 2>&1
  r=$?
  echo "== $id exit=$r  $(grep -c '^  violation' "$d/out.$id") violation lines; $(grep -E '^(VIOLATION|OK|MACHINERY)' "$d/out.$id" | head -2 | tr '\n' ' ')"
  [ -n "$VERBOSE" ] && grep -E '^  violation' "$d/out.$id" | head -${VERBOSE}
  [ "$r" = 2 ] && tail -5 "$d/out.$id"
done
rm -rf "$d"
