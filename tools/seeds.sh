#!/bin/sh
# tools/seeds.sh <seed>... - acceptance: every quick check on the unchanged tree with other seeds (evidence is not overwritten)
cd "$(dirname "$0")/.." || exit 2
for sd in "$@"; do
  d=$(mktemp -d /tmp/seedrun.XXXXXX)
  for id in C01 C02 C03 C04 C05 C06 C07 C08 C09 C10 C11 C12 C13 C14 C15 C16 C17 C18 C19 C20; do
    VERIF_SEED=$sd VERIF_BUILD_DIR=$d/build VERIF_EVID_DIR=$d/evidence VERIF_REPLAY_DIR=$d/replays ./check $id --tier quick > $d/out.$id 2>&1
    echo "SEED $sd $id exit=$? $(grep -E '^(OK|VIOLATION|MACHINERY)' $d/out.$id | head -1 | cut -c1-160)"
    grep -E "^  violation" $d/out.$id | head -3 | cut -c1-400
  done
  rm -rf $d
done
