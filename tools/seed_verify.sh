#!/bin/sh
# tools/seed_verify.sh <out-dir> <name>
# Confirms a candidate seeded change independently in a scratch worktree of /repo (under /tmp):
#   demo passes on the unchanged tree, patch applies, repository suite passes with it, demo fails with it.
# On success the change is kept as /verif/seeded/<name>/ (patch.diff, demo.py, meta.json + "confirmed" record).
out="$1"; name="$2"
[ -f "$out/patch.diff" ] && [ -f "$out/demo.py" ] || { echo "missing patch.diff/demo.py in $out"; exit 2; }
wt=$(mktemp -d /tmp/sv.XXXXXX); rmdir "$wt"
git -C /repo worktree add --detach "$wt" HEAD >/dev/null 2>&1 || { echo "worktree failed"; exit 2; }
cleanup() { git -C /repo worktree remove --force "$wt" >/dev/null 2>&1; git -C /repo worktree prune; }
run_demo() { (cd "$wt" && PYTHONPATH="$wt/src" timeout 300 /venv/bin/python -B "$out/demo.py" >"$wt/.demo.out" 2>&1); echo $?; }
d0=$(run_demo)
if [ "$d0" != 0 ]; then echo "REJECT $name: demo does not pass on the unchanged tree (exit $d0)"; tail -5 "$wt/.demo.out"; cleanup; exit 1; fi
if ! git -C "$wt" apply "$out/patch.diff"; then echo "REJECT $name: patch does not apply"; cleanup; exit 1; fi
suite=$(cd "$wt" && PYTHONPATH="$wt/src" /venv/bin/python -B -m pytest -q -p no:cacheprovider --timeout=900 2>&1 | tail -1)
case "$suite" in *"322 passed"*) ;; *) echo "REJECT $name: suite with the change: $suite"; cleanup; exit 1;; esac
d1=$(run_demo)
if [ "$d1" = 0 ]; then echo "REJECT $name: demo still passes with the change"; cleanup; exit 1; fi
msg=$(tail -3 "$wt/.demo.out" | tr '\n' ' ')
cleanup
dst=/verif/seeded/$name
mkdir -p "$dst"
cp "$out/patch.diff" "$out/demo.py" "$dst/"
/venv/bin/python - "$out/meta.json" "$dst/meta.json" "$suite" "$msg" <<'E'
import json, sys
try:
    m = json.load(open(sys.argv[1]))
except Exception:
    m = {}
m["origin"] = "independent sub-agent given only the property text and a scratch worktree"
m["confirmed"] = {"demo_unchanged_tree": "exit 0", "suite_with_change": sys.argv[3], "demo_with_change": "exit 1: " + sys.argv[4][:300],
                  "how": "tools/seed_verify.sh in a fresh scratch worktree of /repo HEAD"}
json.dump(m, open(sys.argv[2], "w"), indent=1)
E
echo "KEPT $name: $suite; demo exit $d1"
