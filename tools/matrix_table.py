#!/usr/bin/env python3
"""tools/matrix_table.py <log>... - markdown table of seeded changes vs the check of the property they break (from tools/matrix.sh logs)."""
import glob
import json
import os
import re
import sys

HERE = os.path.dirname(os.path.dirname(os.path.abspath(__file__)))
res = {}
for path in sys.argv[1:]:
    for line in open(path, errors="replace"):
        m = re.match(r"MATRIX (\S+) (\S+) :: == (\S+) exit=(\d)", line)
        if m:
            res[m.group(1)] = (m.group(2), int(m.group(4)))
rows = []
for d in sorted(glob.glob(os.path.join(HERE, "seeded", "*", "meta.json"))):
    name = os.path.basename(os.path.dirname(d))
    meta = json.load(open(d))
    prop = meta.get("property", "?")
    r = res.get(name)
    verdict = "not run" if r is None else {1: "**detected**", 0: "missed", 2: "machinery error"}.get(r[1], "?")
    rows.append((prop, name, (meta.get("summary") or "")[:150].replace("|", "/").replace("\n", " "), (meta.get("needs") or "")[:110].replace("|", "/").replace("\n", " "), verdict))
print("| property | seeded change | what was changed | what it needs to manifest | quick check of the property |")
print("|---|---|---|---|---|")
for r in sorted(rows):
    print("| %s | `%s` | %s | %s | %s |" % r)
n = sum(1 for r in rows if r[4] == "**detected**")
print("\n%d of %d seeded changes detected by the quick check of their own property." % (n, len(rows)))
