#!/bin/sh
# tools/matrix_md.sh <log>... - writes seeded/MATRIX.md from logs of tools/matrix.sh (later logs override earlier ones) and prints the summary line
cd "$(dirname "$0")/.." || exit 2
/venv/bin/python tools/matrix_table.py "$@" > seeded/MATRIX.md
tail -1 seeded/MATRIX.md
