"""C17 - the unit-system manager is a registry with exactly one current system (spec/USM.tla).

TLC explores every call sequence of the bounded manager machine and checks the invariants / action
properties; every generated transition is replayed on a fresh UnitSystemManager with recording
listeners and the complete projection (ids in order, current id, every system's mapping, template,
callback log, the caller's own dicts) is compared with TLC's prediction.
"""
import copy

from . import common, project as P

NONE = "<none>"
LITS = {"L1": {"length": "m"}, "L2": {"length": "cm", "time": "s"}, "L3": {"depth": "cm", "time": "min"}}


def env(maxcalls, ops="all", emit="0", every=1, offset=0):
    return {"MAXCALLS": maxcalls, "OPS": ops, "EMIT": emit, "EVERY": every, "OFFSET": offset}


OBJPOOL = {"o1": ("length", "m"), "o2": ("time", "min")}


class Tracked:
    """A client object that registers itself with the manager: a category and a settable unit."""

    def __init__(self, category, unit):
        self._category = category
        self.unit = unit

    def GetCategory(self):
        return self._category


class World:
    def __init__(self):
        from barril.units.unit_system_manager import UnitSystemManager

        self.m = UnitSystemManager()
        self.lits = copy.deepcopy(LITS)      # the caller's dict objects: the same object is passed for the same literal
        self.systems = {}                   # id -> system object as returned by AddUnitSystem (held by the caller)
        self.log = []
        self.objs = {}                      # id -> tracked object, held (only) by the caller
        self.removed = {}                   # id -> system object the caller still holds after it was removed from the manager
        self.m.on_current.Register(self._on_current)
        self.m.on_unit_changed.Register(self._on_unit)

    def _on_current(self, system):
        sid = system.GetId()
        self.log.append(["cur", sid if sid is not None else NONE])

    def _on_unit(self, category, unit):
        self.log.append(["unit", category, unit if unit is not None else NONE])

    def call(self, op, a):
        from barril.units import Scalar

        m = self.m
        out = {"k": "ok", "t": "", "x": 0.0}
        try:
            if op == "SetTemplate":
                m.SetTemplateUnitSystemByUnitsMapping(self.lits[a["l"]])
            elif op == "AddUnitSystem":
                kw = {"read_only": True} if a.get("ro") else {}
                if a["l"] == NONE:
                    s = m.AddUnitSystem(a["id"], "caption " + a["id"], **kw)
                else:
                    s = m.AddUnitSystem(a["id"], "caption " + a["id"], self.lits[a["l"]], **kw)
                self.systems[a["id"]] = s
                self.removed.pop(a["id"], None)
            elif op == "RemoveUnitSystem":
                m.RemoveUnitSystem(a["id"])
                if a["id"] in self.systems:
                    self.removed[a["id"]] = self.systems.pop(a["id"])
            elif op == "SetCurrent":
                m.SetCurrent(None if a["id"] == NONE else m.GetUnitSystemById(a["id"]))
            elif op == "SetDefaultUnit":
                m.GetUnitSystemById(a["id"]).SetDefaultUnit(a["c"], a["u"])
            elif op == "RemoveCategory":
                m.GetUnitSystemById(a["id"]).RemoveCategory(a["c"])
            elif op == "SetDefaultUnitRemoved":
                if a["id"] in self.removed:
                    self.removed[a["id"]].SetDefaultUnit(a["c"], a["u"])
                    self.removed[a["id"]].RemoveCategory(a["c"])
            elif op == "Register":
                if a["o"] not in self.objs:
                    self.objs[a["o"]] = Tracked(*OBJPOOL[a["o"]])
                m.Register(self.objs[a["o"]])
            elif op == "DropObject":
                import gc
                del self.objs[a["o"]]
                gc.collect()
            elif op == "SetReadOnly":
                m.GetUnitSystemById(a["id"]).SetReadOnly(bool(a["ro"]))
            elif op == "IsReadOnly":
                out["t"] = "true" if m.GetUnitSystemById(a["id"]).IsReadOnly() else "false"
            elif op == "GetNewId":
                out["t"] = m.GetNewId()
            elif op == "GetCategoryDefaultUnit":
                r = m.GetCategoryDefaultUnit(a["c"])
                out["t"] = r if r is not None else NONE
            elif op == "GetCurrentId":
                sid = m.GetCurrent().GetId()
                out["t"] = sid if sid is not None else NONE
            elif op == "GetUnitSystemById":
                out["t"] = m.GetUnitSystemById(a["id"]).GetId()
            elif op == "GetQuantityDefaultUnit":
                from barril.units import ObtainQuantity
                out["t"] = m.GetQuantityDefaultUnit(ObtainQuantity(a["u"], a["c"]))
            elif op == "ConvertToCurrent":
                v, u = m.ConvertToCurrent(a["c"], a["u"], a["x"][0] / a["x"][1])
                out["t"], out["x"] = u, v
            elif op == "ConvertScalarToCurrent":
                s = m.ConvertScalarToCurrent(Scalar(a["c"], a["x"][0] / a["x"][1], a["u"]))
                out["t"], out["x"] = s.GetUnit(), s.GetValue()
                out["category"] = s.GetCategory()
                out["cls"] = type(s).__name__
            else:
                raise KeyError(op)
        except Exception as e:  # noqa
            return {"k": P.exc_family(e), "t": "", "x": 0.0, "cls": type(e).__name__}
        return out

    def project(self):
        m = self.m
        systems = m.GetUnitSystems()
        cur = m.GetCurrent().GetId()
        t = m.GetUnitSystemTemplate()
        return {"order": list(systems.keys()),
                "maps": {sid: dict(s.GetUnitsMapping()) for sid, s in systems.items()},
                "ids_of_objects": {sid: s.GetId() for sid, s in systems.items()},
                "ro": {sid: bool(s.IsReadOnly()) for sid, s in systems.items()},
                "captions": {sid: s.GetCaption() for sid, s in systems.items()},
                "current": cur if cur is not None else NONE,
                "tset": t is not None, "tm": dict(t.GetUnitsMapping()) if t is not None else {},
                "log": [list(e) for e in self.log], "lits": copy.deepcopy(self.lits),
                "objs": {o: [x.GetCategory(), x.unit] for o, x in self.objs.items()}}


def diff_out(pred, obs, op, a):
    if pred["k"] != obs["k"]:
        return ["k: predicted %s observed %s %s" % (pred["k"], obs["k"], obs.get("cls", ""))]
    if pred["k"] != "ok":
        return []
    d = []
    if pred["t"] != obs["t"]:
        d.append("t: predicted %r observed %r" % (pred["t"], obs["t"]))
    want = pred["x"][0] / pred["x"][1]
    if abs(obs["x"] - want) > 1e-9 * max(1.0, abs(want)):
        d.append("x: predicted %r observed %r" % (pred["x"], obs["x"]))
    if op == "ConvertScalarToCurrent" and (obs.get("category") != a["c"] or obs.get("cls") != "Scalar"):
        d.append("result category/class: expected %r Scalar, observed %r %r" % (a["c"], obs.get("category"), obs.get("cls")))
    return d


def diff_state(t, p):
    d = []
    if list(t["order"]) != p["order"]:
        d.append("order: predicted %r observed %r" % (t["order"], p["order"]))
    maps = {e["id"]: {x["c"]: x["u"] for x in e["m"]} for e in t["maps"]}
    if maps != p["maps"]:
        d.append("mappings: predicted %r observed %r" % (maps, p["maps"]))
    if any(k != v for k, v in p["ids_of_objects"].items()):
        d.append("ids of registered system objects: %r" % p["ids_of_objects"])
    if t["current"] != p["current"]:
        d.append("current: predicted %r observed %r" % (t["current"], p["current"]))
    tm = {x["c"]: x["u"] for x in t["tm"]}
    if bool(t["tset"]) != p["tset"] or tm != p["tm"]:
        d.append("template: predicted %r %r observed %r %r" % (t["tset"], tm, p["tset"], p["tm"]))
    if [list(e) for e in t["log"]] != p["log"]:
        d.append("callback log: predicted %r observed %r" % (t["log"], p["log"]))
    objs = {x["o"]: [x["c"], x["u"]] for x in t.get("objs", [])}
    if objs != p["objs"]:
        d.append("tracked objects: predicted %r observed %r" % (objs, p["objs"]))
    ro = {x["id"]: bool(x["ro"]) for x in t.get("ro", [])}
    if ro != p["ro"]:
        d.append("read-only flags: predicted %r observed %r" % (ro, p["ro"]))
    if any(c_ != "caption " + sid for sid, c_ in p["captions"].items()):
        d.append("captions of the registered systems: %r" % p["captions"])
    if p["lits"] != LITS:
        d.append("the caller's mapping dicts were changed: %r" % p["lits"])
    return d


def short(h):
    return ["%s(%s)" % (s["op"], ", ".join("%s=%s" % (k, v) for k, v in sorted(s["a"].items()) if k != "x" or "Convert" in s["op"])) for s in h]


ARGS = {"SetTemplate": {"l"}, "AddUnitSystem": {"id", "l", "ro"}, "RemoveUnitSystem": {"id"}, "SetCurrent": {"id"}, "SetDefaultUnit": {"id", "c", "u"},
        "RemoveCategory": {"id", "c"}, "SetDefaultUnitRemoved": {"id", "c", "u"}, "Register": {"o"}, "DropObject": {"o"}, "SetReadOnly": {"id", "ro"},
        "IsReadOnly": {"id"}, "GetNewId": {"x"}, "GetCategoryDefaultUnit": {"c"}, "GetCurrentId": {"x"}, "GetUnitSystemById": {"id"},
        "GetQuantityDefaultUnit": {"c", "u"}, "ConvertToCurrent": {"c", "u", "x"}, "ConvertScalarToCurrent": {"c", "u", "x"}}
MALFORMED = [0]


def well_formed(t):
    """TLC 1.8 with several workers occasionally hands out a record value that lost a field (the race behind its 'Field name occurs multiple
    times' exception, DESIGN 0.3): such a line is not a behaviour of the specification and is dropped (counted), never judged."""
    try:
        return all(set(s_["a"].keys()) == ARGS[s_["op"]] and set(s_["out"].keys()) >= {"k", "t", "x"} for s_ in t["h"]) and all(k_ in t for k_ in ("order", "maps", "current", "log"))
    except Exception:  # noqa
        return False


def replay_one(t, rep, db, every_step=False):
    from barril.units import UnitDatabase

    if not well_formed(t):
        MALFORMED[0] += 1
        return

    UnitDatabase.PushSingleton(db)
    try:
        w = World()
        h = t["h"]
        for i, s in enumerate(h):
            pre = w.project() if (i == len(h) - 1 or every_step) else None
            obs = w.call(s["op"], s["a"])
            d = diff_out(s["out"], obs, s["op"], s["a"])
            if d:
                rep.violation({"check": "outcome", "op": s["op"], "args": s["a"], "after": short(h[:i])}, {"diff": d, "history": short(h[:i + 1])})
                return
            if pre is not None and obs["k"] != "ok":
                post = w.project()
                if pre != post:     # the property's own oracle: a rejected call changes nothing
                    rep.violation({"check": "rejected call changed the manager", "op": s["op"], "args": s["a"], "after": short(h[:i])},
                                  {"before": pre, "after": post})
                    return
        d = diff_state(t, w.project())
        if d:
            rep.violation({"check": "state", "last": short(h[-1:]), "after": short(h[:-1])}, {"diff": d, "history": short(h)})
    finally:
        UnitDatabase.PopSingleton()


def subclass_consistency(rep, db):
    """A manager configured with a unit-system class of the application (SetDefaultUnitSystemClass) whose default unit of a category is not
    a plain lookup in its mapping: every conversion entry must go through the system's own GetDefaultUnit, i.e. agree with
    GetCategoryDefaultUnit - checked without a model, entry against entry."""
    from barril.units import ObtainQuantity, Scalar, UnitDatabase
    from barril.units.unit_system import UnitSystem
    from barril.units.unit_system_manager import UnitSystemManager

    class FallbackUnitSystem(UnitSystem):
        FALLBACK = {"length": "km", "time": "min", "depth": "cm"}

        def GetDefaultUnit(self, category):
            return UnitSystem.GetDefaultUnit(self, category) or self.FALLBACK.get(category)

    n = 0
    UnitDatabase.PushSingleton(db)
    try:
        m = UnitSystemManager()
        m.SetDefaultUnitSystemClass(FallbackUnitSystem)
        for mapping in ({}, {"length": "m"}, {"time": "s", "depth": "m"}):
            sid = m.GetNewId()
            m.SetCurrent(m.AddUnitSystem(sid, "caption", dict(mapping)))
            for c, u, x in (("length", "cm", 250.0), ("length", "km", 1.5), ("depth", "m", 3.0), ("time", "s", 90.0), ("time", "min", 2.0), ("mass", "kg", 1.0)):
                du = m.GetCategoryDefaultUnit(c)
                want_u = du or u
                want_v = db.Convert(c, u, want_u, x)
                got = {"ConvertToCurrent": P.outcome(lambda: tuple(m.ConvertToCurrent(c, u, x))),
                       "ConvertScalarToCurrent": P.outcome(lambda: (lambda s_: (s_.GetValue(), s_.GetUnit()))(m.ConvertScalarToCurrent(Scalar(c, x, u)))),
                       "GetQuantityDefaultUnit": P.outcome(lambda: (want_v, m.GetQuantityDefaultUnit(ObtainQuantity(u, c))))}
                for name, o in got.items():
                    n += 1
                    if o[0] != "ok" or o[1][1] != want_u or abs(o[1][0] - want_v) > 1e-9 * max(1.0, abs(want_v)):
                        rep.violation({"check": "application unit-system class: entry disagrees with GetCategoryDefaultUnit", "entry": name, "category": c, "unit": u,
                                       "mapping": mapping}, {"default_unit": du, "expected": [want_v, want_u], "observed": o[1] if o[0] == "ok" else o[2]})
    finally:
        UnitDatabase.PopSingleton()
    return n


def main(tier):
    from . import export

    rep = common.Report("C17", tier)
    bd = common.build_dir("C17")
    thorough = tier == "thorough"
    db = export.build_db("default")
    r = common.run_tlc("MC_USM", "MC_USM.cfg", bd, env=env(6 if thorough else 4), coverage=False, tag="mc", timeout=6000)
    rep.add_tlc("manager machine, all calls, depth %d: invariants and action properties" % (6 if thorough else 4), r)
    if r.violated:
        raise common.MachineryError("the specification itself violates %s\n%s" % (r.violated, "\n".join(common.tlc_counterexample(r.stdout, 60))))
    # the same machine with the read-only flag of the systems (AddUnitSystem(read_only=), SetReadOnly, IsReadOnly)
    r = common.run_tlc("MC_USM", "MC_USM.cfg", bd, env=env(4 if thorough else 3, "allro"), coverage=False, tag="mc-ro", timeout=6000)
    rep.add_tlc("manager machine with read-only flags, all calls, depth %d: invariants and action properties" % (4 if thorough else 3), r)
    if r.violated:
        raise common.MachineryError("the specification itself violates %s\n%s" % (r.violated, "\n".join(common.tlc_counterexample(r.stdout, 60))))
    # histories of any length: every state over the constants that satisfies the state invariants (reachable or not) takes every call once;
    # the invariants hold again afterwards (they are inductive) and every action property holds for the step
    ri = common.run_tlc("MC_USMInd", "MC_USMInd.cfg", bd, env={"EMIT": "0", "IND": "full" if thorough else "small"}, coverage=False, tag="inductive", timeout=6000)
    rep.add_tlc("inductive check: every invariant-satisfying state of the manager (2 ids, 2 categories, %s units, templates, tracked objects, flags) x every call" % ("4" if thorough else "2"), ri)
    if ri.violated:
        raise common.MachineryError("the specification is not inductive: %s\n%s" % (ri.violated, "\n".join(common.tlc_counterexample(ri.stdout, 60))))
    rep.cov["inductive_check"] = {"initial_states": "all states satisfying IdsUnique, CurrentRegistered, MapsOfRegistered over the constants", "distinct_states": ri.distinct,
                                  "transitions": ri.generated if hasattr(ri, "generated") else None}
    sd = common.seed()
    if thorough:
        runs = [(4, "all", 1, 0), (5, "mut", 2, common.sample_seed()), (5, "all", 4, common.sample_seed(1)), (4, "ro", 4, common.sample_seed(2))]
    else:
        runs = [(3, "all", 1, 0), (4, "all", 16, common.sample_seed()), (5, "mut", 160, common.sample_seed(1)), (3, "ro", 1, 0)]
    n = 0
    ops = {}
    for depth, opset, every, offset in runs:
        e = env(depth, opset, "all" if every == 1 else "sample", every, offset)
        r = common.run_tlc("MC_USM", "MC_USM.cfg", bd, env=e, workers=1 if every == 1 else 8, coverage=False,
                           tag="emit-%d-%s" % (depth, opset), timeout=6000)
        rep.add_tlc("emission depth %d ops=%s every=%d" % (depth, opset, every), r)
        trs = r.tagged("TR")
        if not trs:
            raise common.MachineryError("no transitions emitted")
        for t in trs:
            replay_one(t, rep, db)
            n += 1
            ops[t["h"][-1]["op"]] = ops.get(t["h"][-1]["op"], 0) + 1
        rep.sample({"history": short(trs[len(trs) // 2]["h"]), "predicted_log": trs[len(trs) // 2]["log"]})
    # deep random behaviours of the same specification (tlc -simulate): histories in which calls that are
    # no-ops on the abstract state (re-selecting the current system, ...) are followed by further calls
    nsim, dsim = (40000, 14) if thorough else (4000, 12)
    r = common.run_tlc("MC_USM", "MC_USM.cfg", bd, env=env(dsim, "allro", "last"), workers=1, coverage=False, tag="simulate",
                       simulate="num=%d" % nsim, depth=dsim + 1, seed_=sd + 1, timeout=6000)
    sims = r.tagged("TR")
    if len(sims) < nsim // 2:
        raise common.MachineryError("simulation produced %d behaviours, expected %d" % (len(sims), nsim))
    for t in sims:
        replay_one(t, rep, db, every_step=True)
        for s_ in t["h"]:
            ops[s_["op"]] = ops.get(s_["op"], 0) + 1
    n += len(sims)
    rep.cov["simulated_behaviours"] = {"count": len(sims), "depth": dsim, "seed": sd + 1}
    rep.sample({"simulated_history": short(sims[0]["h"])})
    n += subclass_consistency(rep, db)
    rep.count(evaluations=n, nontrivial=n, traces=n)
    rep.cov["replayed_by_op"] = ops
    rep.cov["malformed_lines_dropped"] = MALFORMED[0]
    if MALFORMED[0] > max(20, n // 100):
        raise common.MachineryError("%d emitted lines are malformed" % MALFORMED[0])
    rep.assumptions += ["pools: 3 ids (two of the form 'system N'), 2 categories, 4 units, 3 mapping literals passed as the same dict "
                        "object each time; SetCurrent selects registered systems or None (DESIGN 8)",
                        "with 16 workers the depth bound on the hidden history makes the explored set vary slightly at the last level"]
    return rep.finish(rule="every transition TLC generates for the bounded manager machine is replayed on a fresh UnitSystemManager with "
                           "recording listeners; outcome, ids, current, all mappings, template, callback log and the caller's dicts compared")
