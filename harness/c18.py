"""C18 - fractional values keep their numeric meaning (spec/Fraction.tla, MC_C18.tla)."""
import copy
import json
import math
import operator
import os
import random

from . import common, export, project as P


def d9(x):
    """Observed float as [s, D, e]: nine significant decimal digits D at decimal exponent e (DESIGN 5.3)."""
    if x == 0 or math.isnan(x) or math.isinf(x):
        return {"s": 0, "D": 0, "e": 0, "repr": repr(x)}
    s = 1 if x > 0 else -1
    m, e = ("%.17e" % abs(x)).split("e")
    digits = m.replace(".", "")
    return {"s": s, "D": int(digits[:9]), "e": int(e), "repr": repr(x)}


def same(fr, want):
    return want["d"] != 0 and fr.numerator * want["d"] == want["n"] * fr.denominator


def main(tier):
    from barril.basic.fraction import Fraction, FractionValue
    from barril.units import FractionScalar, Scalar, UnitDatabase

    rep = common.Report("C18", tier)
    bd = common.build_dir("C18")
    thorough = tier == "thorough"
    rng = random.Random(common.seed() + 18)
    out = os.path.join(bd, "gen.json")
    r = common.run_tlc("MC_C18", "MC_C18.cfg", bd, env={"MODE": "gen", "OUT_FILE": out, "TRACE_FILE": ""}, workers=1, coverage=False, tag="gen")
    rep.add_tlc("exact rational table of every Fraction operator over all pairs; FractionValue amounts and order", r)
    g = json.load(open(out))
    n = 0

    def bad(check, row, detail):
        rep.violation({"check": check, "p": row.get("p"), "q": row.get("q")}, detail)

    for row in g["ops"]:
        p, q = row["p"], row["q"]
        forms = [(Fraction(p["n"], p["d"]), Fraction(q["n"], q["d"]))]
        if n % 3 == 0:   # the decimal-normalising constructor path (short-decimal numerators, integer denominators)
            forms.append((Fraction(p["n"] / 10.0, p["d"]) * 10, Fraction(q["n"] / 100.0, q["d"]) * 100))
        for A, B in forms:
            n += 1
            cases = [("add", lambda: A + B), ("sub", lambda: A - B), ("mul", lambda: A * B), ("neg", lambda: -A), ("abs", lambda: abs(A)),
                     ("pow2", lambda: A ** 2), ("pow3", lambda: A ** 3)]
            if q["n"] != 0:
                cases += [("div", lambda: A / B), ("mod", lambda: A % B)]
            if p["n"] != 0:
                cases += [("inv", lambda: A.inv()), ("powm1", lambda: A ** -1)]
            for name, fn in cases:
                o = P.outcome(fn)
                if o[0] != "ok" or not same(o[1], row[name]):
                    bad("Fraction " + name, row, {"predicted": row[name], "observed": repr(o[1]) if o[0] == "ok" else o[2]})
            # comparison with the plain number that q is, when q is a short decimal (0.29, -0.25, 3): the six operators follow the exact order
            if q["d"] in (1, 2, 4, 5, 8, 10, 20, 25, 50, 100):
                num = q["n"] / q["d"] if q["d"] != 1 else q["n"]
                c_ = row["cmp"]
                for name, fn, want_ in (("==", lambda: A == num, c_ == 0), ("!=", lambda: A != num, c_ != 0), ("<", lambda: A < num, c_ < 0), ("<=", lambda: A <= num, c_ <= 0),
                                        (">", lambda: A > num, c_ > 0), (">=", lambda: A >= num, c_ >= 0), ("== (number on the left)", lambda: num == A, c_ == 0)):
                    o = P.outcome(fn)
                    if o[0] != "ok" or bool(o[1]) != want_:
                        bad("Fraction %s plain number %r" % (name, num), row, {"predicted": want_, "observed": o[1] if o[0] == "ok" else o[2]})
            # plain numbers as the other operand (both sides)
            if q["d"] == 1:
                k = q["n"]
                nc = [("add", lambda: A + k), ("add", lambda: k + A), ("sub", lambda: A - k), ("mul", lambda: A * k), ("mul", lambda: k * A)]
                if k != 0:
                    nc += [("div", lambda: A / k)]
                for name, fn in nc:
                    o = P.outcome(fn)
                    if o[0] != "ok" or not same(o[1], row[name]):
                        bad("Fraction %s number" % name, row, {"predicted": row[name], "observed": repr(o[1]) if o[0] == "ok" else o[2]})
            # ... and plain numbers that are short decimals, not whole (0.1, 0.03, -0.25, 0.35, 2.5): the same exact rational results
            if q["d"] in (2, 4, 5, 8, 10, 20, 25, 50, 100):
                kf = q["n"] / q["d"]
                nc = [("add", lambda: A + kf), ("add", lambda: kf + A), ("sub", lambda: A - kf), ("mul", lambda: A * kf), ("mul", lambda: kf * A)]
                if kf != 0:
                    nc += [("div", lambda: A / kf)]
                for name, fn in nc:
                    o = P.outcome(fn)
                    if o[0] != "ok" or not same(o[1], row[name]):
                        bad("Fraction %s short decimal %r" % (name, kf), row, {"predicted": row[name], "observed": repr(o[1]) if o[0] == "ok" else o[2]})
            if p["d"] in (2, 4, 5, 8, 10, 20, 25, 50, 100):
                kf2 = p["n"] / p["d"]
                nc = [("sub", lambda: kf2 - B)] + ([("div", lambda: kf2 / B)] if q["n"] != 0 else [])
                for name, fn in nc:
                    o = P.outcome(fn)
                    if o[0] != "ok" or not same(o[1], row[name]):
                        bad("short decimal %r %s Fraction" % (kf2, name), row, {"predicted": row[name], "observed": repr(o[1]) if o[0] == "ok" else o[2]})
            if p["d"] == 1:
                k = p["n"]
                o = P.outcome(lambda: k - B)
                if o[0] != "ok" or not same(o[1], row["sub"]):
                    bad("number - Fraction", row, {"predicted": row["sub"], "observed": repr(o[1]) if o[0] == "ok" else o[2]})
                if q["n"] != 0:
                    o = P.outcome(lambda: k / B)
                    if o[0] != "ok" or not same(o[1], row["div"]):
                        bad("number / Fraction", row, {"predicted": row["div"], "observed": repr(o[1]) if o[0] == "ok" else o[2]})
            c = row["cmp"]
            got = (A < B, A <= B, A > B, A >= B, A == B, A != B)
            want = (c < 0, c <= 0, c > 0, c >= 0, c == 0, c != 0)
            if got != want:
                bad("Fraction comparison", row, {"predicted": want, "observed": got})
    rep.count(evaluations=n, nontrivial=len(g["ops"]), traces=n)
    rep.sample({"operator_row": g["ops"][len(g["ops"]) // 2]})
    events = []
    m = 0
    amount = {(json.dumps(r_["an"]), json.dumps(r_["af"])): r_["amount"] for r_ in g["fvs"]}
    for row in g["fvs"]:
        def num(x):
            return x["n"] // x["d"] if x["d"] == 1 else x["n"] / x["d"]
        A = FractionValue(num(row["an"]), Fraction(row["af"]["n"], row["af"]["d"]))
        B = FractionValue(num(row["bn"]), Fraction(row["bf"]["n"], row["bf"]["d"]))
        m += 1
        want = row["amount"]["n"] / row["amount"]["d"]
        if abs(float(A) - want) > 1e-12 * max(1.0, abs(want)):
            rep.violation({"check": "float(FractionValue)", "a": [row["an"], row["af"]]}, {"predicted": row["amount"], "observed": float(A)})
        c = row["cmp"]
        got = (A < B, A <= B, A > B, A >= B)
        if got != (c < 0, c <= 0, c > 0, c >= 0):
            rep.violation({"check": "FractionValue order", "a": [row["an"], row["af"]], "b": [row["bn"], row["bf"]]}, {"cmp": c, "observed": got})
        # a history: read the amount, double the numerator in place (the Fraction is a mutable object shared with the caller),
        # read again: the amount is then number + 2 * fraction = 2 * amount - number (from TLC's table)
        if row["af"]["n"] != 0:
            fa = float(A), A < B
            A.fraction.numerator = 2 * A.fraction.numerator
            want2 = 2 * want - row["an"]["n"] / row["an"]["d"]
            if abs(float(A) - want2) > 1e-12 * max(1.0, abs(want2)) or (A < B) != (want2 < row["bn"]["n"] / row["bn"]["d"] + row["bf"]["n"] / row["bf"]["d"] - 1e-12):
                rep.violation({"check": "FractionValue amount/order after changing its fraction in place", "a": [row["an"], row["af"]]},
                              {"predicted": want2, "observed": float(A)})
            A = FractionValue(num(row["an"]), Fraction(row["af"]["n"], row["af"]["d"]))
        if m % 7 == 0:
            A2 = copy.copy(A)
            events.append({"op": "Same", "call": "copy", "a": [P.fnum(A.number), repr(A.fraction)], "b": [P.fnum(A2.number), repr(A2.fraction)]})
            A2.fraction.numerator = 5       # the copy is independent
            events.append({"op": "Same", "call": "copy is independent", "a": [row["af"]["n"], row["af"]["d"]], "b": [A.fraction.numerator * (row["af"]["d"] // A.fraction.denominator), row["af"]["d"]]})
            o = P.outcome(lambda: FractionValue.CreateFromString(str(A), consider_locale=False))
            A3 = o[1] if o[0] == "ok" else None
            events.append({"op": "Same", "call": "parse(format) %s" % str(A), "a": [P.fnum(A.number), repr(A.fraction)],
                           "b": [P.fnum(A3.number), repr(A3.fraction)] if A3 is not None else ["raised", o[2] if o[0] != "ok" else ""]})
    rep.count(evaluations=m, nontrivial=m, traces=m)
    # CreateFromFloat over decimals with up to 8 significant digits
    for _ in range(30000 if thorough else 4000):
        j = rng.randrange(1, 9)
        k = rng.randrange(1, 10 ** j)
        e = rng.randrange(-8, 4)
        dec = j - 1 - e                       # x = k / 10^dec
        sign = rng.choice([1, -1])
        x = float("%de%d" % (sign * k, -dec))
        num, den = (sign * k, 10 ** dec) if dec >= 0 else (sign * k * 10 ** (-dec), 1)
        o = P.outcome(FractionValue.CreateFromFloat, x)
        if o[0] != "ok":
            events.append({"op": "FromFloat", "call": repr(x), "x": [0, 1], "obs": d9(0.0), "frac_lt_1": False, "signs_ok": False, "number_integral": False, "exc": o[2]})
            continue
        fv = o[1]
        fr = float(fv.fraction)
        g2 = math.gcd(abs(num), den)
        xr = [num // g2, den // g2] if abs(num // g2) < 2 ** 31 and den // g2 < 2 * 10 ** 8 else [0, 0]
        events.append({"op": "FromFloat", "call": repr(x), "x": xr, "obs": d9(float(fv)), "frac_lt_1": abs(fr) < 1,
                       "signs_ok": fv.number * x >= 0 and fr * x >= 0, "number_integral": float(fv.number) == int(fv.number),
                       "result": repr(fv)})
    # a Fraction against the short decimal it equals (and its neighbours): ==, !=, <, <=, >, >= follow the exact order
    import fractions as _fr
    for den in (10, 100, 1000):
        for num_ in range(-3 * den, 3 * den + 1, 1 if den <= 100 else 7):
            A = Fraction(num_, den)
            for delta in (0, 1, -1):
                x = (num_ + delta) / den
                c_ = (num_ > num_ + delta) - (num_ < num_ + delta) if _fr.Fraction(repr(x)) == _fr.Fraction(num_ + delta, den) else None
                if c_ is None:
                    continue
                obs = [P.outcome(f)[1] for f in (lambda: A == x, lambda: A != x, lambda: A < x, lambda: A <= x, lambda: A > x, lambda: A >= x)]
                events.append({"op": "Bool", "call": "Fraction(%d, %d) against the plain number %r" % (num_, den, x), "a": [bool(o) if isinstance(o, bool) else str(o) for o in obs],
                               "b": [c_ == 0, c_ != 0, c_ < 0, c_ <= 0, c_ > 0, c_ >= 0]})
    # FractionScalar vs Scalar on the real table
    db = export.build_db("default")
    proj = export.project_db(db)
    UnitDatabase.PushSingleton(db)
    try:
        units_of = {}
        for row in proj["rows"]:
            units_of.setdefault(row["qt"], []).append(row["unit"])
        fvals = [FractionValue(2, Fraction(1, 2)), FractionValue(0, Fraction(3, 4)), FractionValue(-1, Fraction(-1, 4)), FractionValue(7, Fraction(5, 8)), FractionValue(0, Fraction(-1, 2)),
                 FractionValue(3)]
        for qt, us in units_of.items():
            cat = db.GetDefaultCategory(us[0])
            if not cat or qt in ("Unknown",):
                continue
            # validation against a category with limits, in every (sampled) unit: accepted / rejected exactly like the Scalar
            if P.outcome(lambda: db.AddCategory("verif limited", qt, min_value=0.0, max_value=3.0, override=True))[0] == "ok":
                for u in (us if thorough or len(us) <= 6 else [us[0]] + rng.sample(us[1:], 5)):
                    for fv in fvals:
                        def verdict(mk):
                            o = P.outcome(mk)
                            if o[0] != "ok":
                                return o[2]
                            return "valid" if o[1].IsValid() else "invalid"
                        events.append({"op": "Bool", "call": "validate %r %s against limits 0..3 %s" % (fv, u, us[0]),
                                       "a": verdict(lambda: FractionScalar("verif limited", value=fv, unit=u)),
                                       "b": verdict(lambda: Scalar("verif limited", float(fv), u))})
            pairs = [(a, b) for a in us for b in us if a != b]
            # units that are nearly (not exactly) the same size are always kept, with every amount of the pool: a converted numerator next to a whole number
            near = set((a, b) for a, b in pairs if 0.0 < abs(db.Convert(qt, a, b, 1.0) - 1.0) < 1e-6 and db.Convert(qt, a, b, 0.0) == 0.0)
            if len(pairs) > (400 if thorough else 14):
                pairs = rng.sample(pairs, 400 if thorough else 14)
            pairs = pairs + sorted(near - set(pairs))
            # pairs that differ by an offset get every amount of the pool (a zero whole part, a negative fraction, ...), the others one
            work = []
            for u, v in pairs:
                if db.Convert(qt, u, v, 0.0) != 0.0 or (u, v) in near:
                    work += [(u, v, f_) for f_ in fvals]
                else:
                    work.append((u, v, fvals[(len(work) + len(u)) % len(fvals)]))
            for u, v, fv in work:
                fs = FractionScalar(cat, value=fv, unit=u)
                sc = Scalar(cat, float(fv), u)
                o = P.outcome(lambda: fs.GetValue(v))
                ref = sc.GetValue(v)
                scale = max(abs(ref), abs(db.Convert(qt, u, v, 0.0)), 1e-300)
                if o[0] == "ok":
                    got = float(o[1])
                    ppt = min(2 ** 31 - 1, int(abs(got - ref) / scale * 1e12)) if not (math.isnan(got) or math.isnan(ref)) else 2 ** 31 - 1
                    cq = P.outcome(lambda: float(FractionScalar.ConvertFractionValue(fv, __import__("barril.units").units.ObtainQuantity(v, cat), u, v)))
                    cs = P.outcome(lambda: float(FractionScalar.ConvertFractionValue(fv, qt, u, v)))
                    for how_, c__ in (("a quantity object in the target unit", cq), ("the quantity type", cs)):
                        events.append({"op": "Route", "call": "%s->%s ConvertFractionValue given %s" % (u, v, how_),
                                       "ppt": min(2 ** 31 - 1, int(abs(c__[1] - ref) / scale * 1e12)) if c__[0] == "ok" and not math.isnan(c__[1]) else 2 ** 31 - 1,
                                       "unit_ok": c__[0] == "ok", "category_ok": True, "got": repr(c__[1]), "ref": repr(ref)})
                    cp = fs.CreateCopy(unit=v)
                    events.append({"op": "Route", "call": "%s->%s" % (u, v), "ppt": ppt, "unit_ok": cp.GetUnit() == v and abs(float(cp.GetValue()) - ref) <= 1e-9 * scale,
                                   "category_ok": cp.GetCategory() == cat, "got": repr(got), "ref": repr(ref)})
                else:
                    events.append({"op": "Route", "call": "%s->%s" % (u, v), "ppt": 2 ** 31 - 1, "unit_ok": False, "category_ok": False, "got": o[2], "ref": repr(ref)})
                fv2 = fvals[(len(events)) % len(fvals)]
                fs2, sc2 = FractionScalar(cat, value=fv2, unit=v), Scalar(cat, float(fv2), v)
                base_a, base_b = db.Convert(qt, u, us[0], float(fv)), db.Convert(qt, v, us[0], float(fv2))
                if abs(base_a - base_b) > 1e-9 * max(abs(base_a), abs(base_b), 1e-300):     # ties are rounding-indeterminate (DESIGN 8)
                    for name, op in (("<", operator.lt), ("<=", operator.le), (">", operator.gt), (">=", operator.ge)):
                        a = P.outcome(op, fs, fs2)
                        b = P.outcome(op, sc, sc2)
                        events.append({"op": "Bool", "call": "%s %s %s" % (u, name, v), "a": a[1] if a[0] == "ok" else a[2], "b": b[1] if b[0] == "ok" else b[2]})
    finally:
        UnitDatabase.PopSingleton()
    common.judge_trace(rep, bd, events, "CreateFromFloat, format/parse, copy, FractionScalar vs Scalar routes and comparisons", module="MC_C18", tag="judge", env={"MODE": "judge", "OUT_FILE": out},
                       key_of=lambda ev: {"check": ev["op"], "call": ev.get("call")})
    rep.assumptions += ["Fraction pool: numerators -6..6, denominators 1..8 plus short decimals; integer powers 2, 3, -1",
                        "CreateFromFloat: decimals with up to 8 significant digits and exponent -8..3, judged on nine significant digits",
                        "FractionScalar routes: quick = up to 14 seeded ordered unit pairs per quantity type, thorough = up to 400"]
    return rep.finish(rule="every pair of the Fraction pool x every operator (table computed by TLC with exact rationals, compared exactly); "
                           "FractionValue amounts/order/copy/format-parse; seeded CreateFromFloat inputs and FractionScalar-vs-Scalar routes "
                           "recorded and validated by TLC")
