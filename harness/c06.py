"""C06 - named compound units agree with the composition of their parts.

TLC parses every symbol of the exported table (UnitGrammar!Parse) and finds SI-prefixed atomic rows;
the harness measures, on the real closures and through Scalar arithmetic on the parts, the ratio of
each such row's factor to the composition TLC named; TLC judges the ratios against the precision the
table is written in.  Rows that disagree on the pinned table are listed in KNOWN_FINDINGS.jsonl
keyed by (row, ratio to 6 digits).
"""
import json
import os

from . import common, export

MAXI = 2 ** 31 - 1


def sig_digits(x):
    m = repr(float(x)).split("e")[0].replace(".", "").replace("-", "").strip("0")
    return len(m) or 1


def lits(info):
    tb = info.tobase
    if not hasattr(tb, "__b__"):
        return []
    return [sig_digits(tb.__b__), sig_digits(tb.__c__)]


def ppb(ratio):
    d = abs(ratio - 1.0) * 1e9
    if d != d or d > MAXI:
        return MAXI
    return int(round(d))


def main(tier):
    from barril.units import Scalar, UnitDatabase

    rep = common.Report("C06", tier)
    bd = common.build_dir("C06")
    table = os.path.join(bd, "table.json")
    db, proj = export.export("default", table)
    UnitDatabase.PushSingleton(db)
    try:
        gen_out = os.path.join(bd, "gen.json")
        env = {"MODE": "gen", "TABLE_FILE": table, "OUT_FILE": gen_out, "TRACE_FILE": ""}
        r1 = common.run_tlc("MC_C06", "MC_C06.cfg", bd, env=env, workers=1)
        rep.add_tlc("grammar decomposition + SI-prefix relation of all %d symbols (gen)" % len(proj["rows"]), r1)
        gen = json.load(open(gen_out))

        def fac(u):
            i = db.unit_to_unit_info[u]
            return i.tobase(1.0) - i.tobase(0.0)

        def basemag(s):
            m = s.GetValue() if not s.GetQuantity().IsDerived() else s.value
            for _c, (u, e) in s.GetQuantity().GetCategoryToUnitAndExps().items():
                m *= fac(u) ** e
            return m

        gen_of = {x["unit"]: x for x in gen}

        def expand(parts, depth=0):
            """parts -> ([(leaf atom, exponent)], numeric prefactor): compound atoms are replaced by their own parts (relative to base rows not)"""
            leaves, pref = [], 1.0
            for p in parts:
                sub = gen_of.get(p["atom"])
                pref *= float(p["pre"]) ** p["exp"]
                if sub and sub["parts"] and all(fac(r_["atom"]) == 1.0 for r_ in (sub.get("refparts") or [])) and depth < 3 and not (len(sub["parts"]) == 1 and sub["parts"][0]["atom"] == p["atom"]):
                    l2, p2 = expand(sub["parts"], depth + 1)
                    comp_ = p2
                    for a_, e_ in l2:
                        comp_ *= fac(a_) ** e_
                    if not comp_ or abs(fac(p["atom"]) / comp_ - 1.0) > 1e-5:
                        leaves.append((p["atom"], p["exp"]))       # the row's symbol does not read as its parts (Mm3 = 1000 m3): kept as a leaf
                        continue
                    leaves += [(a_, e_ * p["exp"]) for a_, e_ in l2]
                    pref *= p2 ** p["exp"]
                else:
                    leaves.append((p["atom"], p["exp"]))
            return leaves, pref

        cats_of = {}
        for c_ in proj["cats"]:
            cats_of.setdefault(c_["qt"], []).append(c_["cat"])
        events = []
        ndec = npre = 0
        for g in gen:
            u = g["unit"]
            info = db.unit_to_unit_info[u]
            if g["parts"]:
                ndec += 1
                comp = 1.0
                sig_parts = []
                num = None
                for p in g["parts"]:
                    f = fac(p["atom"])
                    comp *= (p["pre"] if p["exp"] > 0 else 1.0 / p["pre"]) * f ** p["exp"]
                    sig_parts.append({"atom": p["atom"], "e": abs(p["exp"]), "sig": lits(db.unit_to_unit_info[p["atom"]])})
                # the same amount through Scalar arithmetic on the parts, in two groupings:
                #   left to right  ((a * b) / c) / d      and      reciprocal first  (a * b) * (1 / (c * d))
                try:
                    acc = 1.0
                    den = None
                    for p in g["parts"]:
                        for _ in range(max(p["exp"], 0)):
                            acc = acc * Scalar(float(p["pre"]), p["atom"])
                    acc2 = acc
                    for p in g["parts"]:
                        for _ in range(max(-p["exp"], 0)):
                            s = Scalar(float(p["pre"]), p["atom"])
                            acc = acc / s
                            den = s if den is None else den * s
                    if den is not None:
                        acc2 = acc2 * (1.0 / den)
                    mag = basemag(acc) if not isinstance(acc, float) else acc
                    mag2 = basemag(acc2) if not isinstance(acc2, float) else acc2
                    ratio_scalar = fac(u) / mag
                    if ppb(fac(u) / mag2) > ppb(ratio_scalar):
                        ratio_scalar = fac(u) / mag2
                    # the left-to-right composition once more with other amounts (3 x the prefactor of every factor): the same operations between
                    # the same quantities, evaluated a second time, must still match the units of the operands
                    accb = 1.0
                    for p in g["parts"]:
                        for _ in range(max(p["exp"], 0)):
                            accb = accb * Scalar(3.0 * p["pre"], p["atom"])
                    for p in g["parts"]:
                        for _ in range(max(-p["exp"], 0)):
                            accb = accb / Scalar(3.0 * p["pre"], p["atom"])
                    magb = (basemag(accb) if not isinstance(accb, float) else accb) / 3.0 ** sum(p["exp"] for p in g["parts"])
                    if ppb(fac(u) / magb) > ppb(ratio_scalar):
                        ratio_scalar = fac(u) / magb
                    # the same composition on numpy-backed Arrays, down to the leaves (a part that is itself a compound row - ft2, in3 - is
                    # expanded into its own parts), the combination evaluated twice from the same part powers: operands that took part in a
                    # product / quotient must still hold the amounts their label says
                    leaves, pref = expand(g["parts"])
                    if len(leaves) >= 2 and all(db.unit_to_unit_info[a_].tobase(0.0) == 0.0 for a_, _e in leaves):
                        import numpy
                        from barril.units import Array
                        pw = []
                        for atom_, e_ in leaves:
                            a_ = Array(numpy.array([1.0, 2.0]), atom_)
                            f_ = a_
                            for _ in range(abs(e_) - 1):
                                f_ = f_ * a_
                            pw.append((f_, e_ > 0))
                        for _round in (1, 2):
                            accA = None
                            for f_, num_ in pw:
                                if num_:
                                    accA = f_ if accA is None else accA * f_
                            for f_, num_ in pw:
                                if not num_:
                                    accA = (1.0 / f_) if accA is None else accA / f_
                            if hasattr(accA, "GetQuantity"):
                                mA = float(accA.GetAbstractValue()[0]) * pref
                                for c_, (uu_, ee_) in accA.GetQuantity().GetCategoryToUnitAndExps().items():
                                    mA *= fac(uu_) ** ee_
                                if ppb(fac(u) / mA) > ppb(ratio_scalar):
                                    ratio_scalar = fac(u) / mA
                    # third grouping: every repeated factor written with the power operator,  a ** 2 * b / c ** 3
                    if any(abs(p["exp"]) >= 2 for p in g["parts"]):
                        acc3 = 1.0
                        for p in g["parts"]:
                            f_ = Scalar(float(p["pre"]), p["atom"]) ** abs(p["exp"])
                            acc3 = acc3 * f_ if p["exp"] > 0 else acc3 / f_
                        mag3 = basemag(acc3) if not isinstance(acc3, float) else acc3
                        if ppb(fac(u) / mag3) > ppb(ratio_scalar):
                            ratio_scalar = fac(u) / mag3
                    # the same amount brought to base units by the library itself: added to a zero amount composed of the parts' base
                    # units (unit matching with exponents on a database that has matched many other rows before), once with
                    # the default categories and once with a different category of the quantity type for every repeated factor
                    if all(db.unit_to_unit_info[p["atom"]].tobase(0.0) == 0.0 for p in g["parts"]):
                        for variant in ("default categories", "one category per factor"):
                            used = {}

                            def sc(val, unit):
                                qt_ = db.unit_to_unit_info[unit].quantity_type
                                if variant == "default categories" or len(cats_of.get(qt_, [])) < 2:
                                    return Scalar(val, unit)
                                k_ = used.get(qt_, 0)
                                used[qt_] = k_ + 1
                                return Scalar(val, unit, cats_of[qt_][k_ % len(cats_of[qt_])])
                            try:
                                comp_, zero_ = Scalar.CreateEmptyScalar(1.0), Scalar.CreateEmptyScalar(0.0)
                                for p in g["parts"]:
                                    for _ in range(abs(p["exp"])):
                                        bu = db.GetBaseUnit(db.unit_to_unit_info[p["atom"]].quantity_type)
                                        a_ = sc(float(p["pre"]), p["atom"])
                                        z_ = Scalar(1.0, bu, a_.GetCategory())
                                        comp_, zero_ = (comp_ * a_, zero_ * z_) if p["exp"] > 0 else (comp_ / a_, zero_ / z_)
                                total = zero_ + comp_
                                r4 = fac(u) / total.value
                                if ppb(r4) > ppb(ratio_scalar):
                                    ratio_scalar = r4
                                # ... and read with the label the library shows for the composed amount (units joined over the categories)
                                m5 = comp_.value
                                for uu_, ee_ in comp_.GetQuantity().GetComposingUnitsJoiningExponents():
                                    m5 *= fac(uu_) ** ee_
                                if ppb(fac(u) / m5) > ppb(ratio_scalar):
                                    ratio_scalar = fac(u) / m5
                            except ZeroDivisionError:
                                pass
                    # a pure power / reciprocal of one unit: also through the library's own conversion of the derived quantity
                    # to the same power of the part's base unit (the exponent form of UnitDatabase.Convert)
                    if (len(g["parts"]) == 1 and g["parts"][0]["pre"] == 1 and not isinstance(acc, float) and acc.GetQuantity().IsDerived()
                            and db.unit_to_unit_info[g["parts"][0]["atom"]].tobase(0.0) == 0.0):        # scale-only parts (DESIGN 8)
                        p0 = g["parts"][0]
                        pbase = db.GetBaseUnit(db.unit_to_unit_info[p0["atom"]].quantity_type)
                        conv = acc.GetValue([(pbase, p0["exp"])])
                        r3 = fac(u) / conv
                        if ppb(r3) > ppb(ratio_scalar):
                            ratio_scalar = r3
                    # the named-unit side of the statement: one unit of the row read in the base unit of its type through every public
                    # re-expression of a Scalar must be the amount the composition gives
                    if info.tobase(0.0) == 0.0 and db.GetDefaultCategory(u):
                        bu_ = db.GetBaseUnit(info.quantity_type)
                        named = Scalar(1.0, u)
                        for read in (lambda: named.GetValue(bu_), lambda: named.CreateCopy(unit=bu_).GetValue(),
                                     lambda: named.CreateCopy(unit=bu_, category=named.GetCategory()).GetValue(),
                                     lambda: -((-1.0 * named).CreateCopy(unit=bu_).GetValue())):
                            r6 = read() * fac(bu_) / mag
                            if ppb(r6) > ppb(ratio_scalar):
                                ratio_scalar = r6
                    # a pure power of one unit with a negative amount through the library's exponent conversion
                    if (len(g["parts"]) == 1 and g["parts"][0]["pre"] == 1 and not isinstance(acc, float) and acc.GetQuantity().IsDerived()
                            and db.unit_to_unit_info[g["parts"][0]["atom"]].tobase(0.0) == 0.0):
                        p0 = g["parts"][0]
                        pbase = db.GetBaseUnit(db.unit_to_unit_info[p0["atom"]].quantity_type)
                        r7 = fac(u) / -((-1.0 * acc).GetValue([(pbase, p0["exp"])]))
                        if ppb(r7) > ppb(ratio_scalar):
                            ratio_scalar = r7
                except ZeroDivisionError:
                    ratio_scalar = float("nan")
                kind = "parts"
            elif g["prefix"]["has"]:
                npre += 1
                comp = fac(g["prefix"]["stem"]) * 10.0 ** g["prefix"]["pow"]
                sig_parts = [{"atom": g["prefix"]["stem"], "e": 1, "sig": lits(db.unit_to_unit_info[g["prefix"]["stem"]])}]
                ratio_scalar = Scalar(1.0, u).GetValue(g["prefix"]["stem"]) / 10.0 ** g["prefix"]["pow"]
                kind = "prefix"
            else:
                continue
            if g["parts"] and g["refparts"]:
                # the row's type has a decomposable base unit: compose relative to the base row's own composition
                refc = 1.0
                for p in g["refparts"]:
                    refc *= (p["pre"] if p["exp"] > 0 else 1.0 / p["pre"]) * fac(p["atom"]) ** p["exp"]
                    sig_parts.append({"atom": p["atom"], "e": abs(p["exp"]), "sig": lits(db.unit_to_unit_info[p["atom"]])})
                comp /= refc
                ratio_scalar *= refc
            ratio = fac(u) / comp if comp else float("inf")
            events.append({"op": "Row", "unit": u, "kind": kind, "ppb": ppb(ratio), "ppb_scalar": ppb(ratio_scalar),
                           "ratio6": "%.5e" % ratio, "sig_row": lits(info), "sig_parts": sig_parts,
                           "factor": repr(fac(u)), "composed": repr(comp),
                           "parts": g["parts"] if g["parts"] else g["prefix"], "ref": g["ref"]})
        trace = os.path.join(bd, "trace.ndjson")
        with open(trace, "w") as f:
            for ev in events:
                f.write(json.dumps(ev) + "\n")
        env["MODE"] = "judge"
        env["TRACE_FILE"] = trace
        r2 = common.run_tlc("MC_C06", "MC_C06.cfg", bd, env=env, workers=1)
        rep.add_tlc("judgement of %d measured rows" % len(events), r2)
        if r2.distinct != len(events) + 1:
            raise common.MachineryError("trace not consumed: %d states for %d events" % (r2.distinct, len(events)))
        for v in r2.tagged("VIOL"):
            ev = v["ev"]
            rep.violation({"row": ev["unit"]}, {"ratio6": ev["ratio6"], "factor": ev["factor"], "composed": ev["composed"],
                                                "ppb": ev["ppb"], "ppb_scalar": ev["ppb_scalar"], "kind": ev["kind"]})
        if ndec < 800 or npre < 100:
            raise common.MachineryError("vacuity: only %d rows decompose and %d are SI-prefixed" % (ndec, npre))
        rep.count(evaluations=len(proj["rows"]), nontrivial=len(events), traces=1)
        rep.sample(events[0])
        rep.sample(next(e for e in events if e["kind"] == "prefix"))
        rep.sample(next(e for e in events if len(e["sig_parts"]) >= 3))
        rep.cov["exhaustive"] = True
        rep.assumptions += [
            "a unit's factor is tobase(1) - tobase(0) of its registered closure (slope; offsets of affine parts do not enter a per-unit factor)",
            "'precision the table is written in' = half a unit in the last written place of every literal involved; literals with <= 3 "
            "significant digits are treated as exact (defined in MC_C06.tla)",
            "SI-prefix relation requires symbol AND registered name (modulo plural s, metre/meter, litre/liter) and the same quantity type",
        ]
        return rep.finish(
            rule="every row of the default table: TLC decomposes its symbol with the table grammar or relates it to its SI stem; each such "
                 "row is one non-trivial case (ratio of its factor to the composition, through the closures and through Scalar arithmetic)",
            extra={"rows_decomposed": ndec, "rows_si_prefixed": npre})
    finally:
        UnitDatabase.PopSingleton()
