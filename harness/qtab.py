"""Exports the unit table of the quantity-algebra model (spec/QAlg.tla) from the running default database."""
import fractions

ATOMS = [("length", "m"), ("length", "cm"), ("depth", "km"), ("depth", "m"), ("time", "s"), ("time", "min"),
         ("temperature", "K"), ("temperature", "degC"), ("mass", "kg")]


def frac(x):
    f = fractions.Fraction(repr(float(x)))
    return [f.numerator, f.denominator]


def export(db, atoms=ATOMS):
    units = {}
    for _c, u in atoms:
        info = db.unit_to_unit_info[u]
        tb = info.tobase
        if hasattr(tb, "__a__"):
            a, b, c, d = (float(getattr(tb, "__%s__" % k)) for k in "abcd")
            if d != 0.0:
                raise ValueError("unit %s is not affine" % u)
            slope, offs = fractions.Fraction(repr(b)) / fractions.Fraction(repr(c)), fractions.Fraction(repr(a)) / fractions.Fraction(repr(c))
        else:
            slope, offs = fractions.Fraction(1), fractions.Fraction(0)
        units[u] = {"qt": info.quantity_type, "f": [slope.numerator, slope.denominator], "o": [offs.numerator, offs.denominator],
                    "name": info.name}
    cats = {c: db.GetCategoryQuantityType(c) for c, _u in atoms}
    return {"units": units, "cats": cats, "atoms": [list(a) for a in atoms]}
