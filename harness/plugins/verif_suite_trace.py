"""pytest plugin (loaded explicitly with `-p verif_suite_trace`): records the top-level registry calls the repository's own test-suite
makes on every UnitDatabase instance it creates, as one history per instance, in the event format of spec/MC_RegTrace.tla.

Nothing in /repo is changed: the class is wrapped from outside, in the test process only, and only while BARRIL_VERIF=1 and
VERIF_SUITE_TRACE names the output file.  One event per public call at depth 0 (calls made by the library itself inside a recorded call
are not events), logged on the error path too, with the projected registry after the call while the registry is small.
"""
import itertools
import json
import os

NONE = "<none>"
SCALE = 1000          # limits / default values are recorded as integers: amount x 1000 (a history with finer amounts is dropped)
_state = {"depth": 0, "events": {}, "dropped": {}, "counter": itertools.count(1)}


def _family(e):
    from barril.units.unit_database import InvalidQuantityTypeError, InvalidUnitError, UnitsError  # noqa

    if isinstance(e, AssertionError):
        return "ASSERT"
    if isinstance(e, UnitsError):
        return "UNITS"
    if isinstance(e, KeyError):
        return "KEY"
    if isinstance(e, TypeError):
        return "TYPE"
    if isinstance(e, ValueError):
        return "VALUE"
    if isinstance(e, RuntimeError):
        return "RUNTIME"
    return type(e).__name__


def _d9(x):
    if x == 0:
        return {"s": 0, "D": 0, "e": 0, "repr": repr(x)}
    m, e = ("%.17e" % abs(x)).split("e")
    return {"s": 1 if x > 0 else -1, "D": int(m.replace(".", "")[:9]), "e": int(e), "repr": repr(x)}


class _Unrepresentable(Exception):
    pass


def _num(v):
    if v is None:
        return {"has": False, "v": 0}
    x = float(v) * SCALE
    if x != int(x) or abs(x) > 2 ** 30:
        raise _Unrepresentable("amount %r" % (v,))
    return {"has": True, "v": int(x)}


def _s(x):
    if x is None:
        return NONE
    if x.__class__ is not str:
        raise _Unrepresentable("not a str: %r" % (x,))
    return x


def _project(db):
    order = [[qt, [i.unit for i in infos]] for qt, infos in db.quantity_types.items()]
    units = [[u, i.quantity_type, getattr(i.tobase, "__has_conversion__", True) is False, i.default_category or NONE] for u, i in db.unit_to_unit_info.items()]
    cats = []
    for c, ci in db.categories_to_quantity_types.items():
        cats.append([c, ci.quantity_type, ci.valid_units is not None, list(ci.valid_units or []), ci.default_unit if ci.default_unit is not None else NONE,
                     _num(ci.default_value)["v"], ci.min_value is not None, _num(ci.min_value)["v"], ci.max_value is not None, _num(ci.max_value)["v"],
                     bool(ci.is_min_exclusive), bool(ci.is_max_exclusive)])
    return {"order": order, "units": units, "cats": cats}


def _install():
    from barril.units.unit_database import UnitDatabase

    orig_init = UnitDatabase.__init__

    def init(self, *a, **k):
        orig_init(self, *a, **k)
        self._verif_tid = next(_state["counter"])
        self._verif_owner = id(self)
        _state["events"][self._verif_tid] = []

    UnitDatabase.__init__ = init

    def wrap(name, mkargs, result=None):
        orig = getattr(UnitDatabase, name)

        def f(self, *a, **k):
            tid = getattr(self, "_verif_tid", None)
            mine = tid is not None and getattr(self, "_verif_owner", None) == id(self) and _state["depth"] == 0 and tid not in _state["dropped"]
            _state["depth"] += 1
            exc = None
            res = None
            try:
                res = orig(self, *a, **k)
                return res
            except Exception as e:  # noqa
                exc = e
                raise
            finally:
                _state["depth"] -= 1
                if mine:
                    try:
                        op, args = mkargs(*a, **k)
                        out = {"k": "ok" if exc is None else _family(exc), "s": [], "t": "", "b": False, "has_x": False, "x": _d9(0.0)}
                        if exc is None and result is not None:
                            result(out, res)
                        if op == "CountUnits" and exc is None:
                            out.update(s=[], has_x=True, x=_d9(float(len(res))))
                        if op == "AddUnit" and out["k"] in ("ASSERT", "SyntaxError"):
                            op, args, out["k"] = "AddUnitBad", {"qt": args["qt"], "u": args["u"]}, "ASSERT"
                        small = len(self.unit_to_unit_info) <= 40 and len(self.categories_to_quantity_types) <= 20
                        _state["events"][tid].append({"tid": tid, "op": op, "a": args, "out": out, "has_state": small,
                                                      "state": _project(self) if small else {"order": [], "units": [], "cats": []}})
                    except _Unrepresentable as u:
                        _state["dropped"][tid] = str(u).split(" at 0x")[0]
                    except Exception as u:  # noqa - a call form the recorder does not know: the history is dropped, the test goes on
                        _state["dropped"][tid] = "recorder: %s %r" % (name, u)
        setattr(UnitDatabase, name, f)

    wrap("AddUnitBase", lambda quantity_type, name, unit: ("AddUnitBase", {"qt": _s(quantity_type), "u": _s(unit)}))
    wrap("AddUnit", lambda quantity_type, name, unit, frombase=None, tobase=None, default_category=None: ("AddUnit", {"qt": _s(quantity_type), "u": _s(unit), "dc": _s(default_category)}))

    def cat(category, quantity_type=None, valid_units=None, override=False, default_unit=None, default_value=None, min_value=None, max_value=None,
            is_min_exclusive=False, is_max_exclusive=False, caption="", from_category=None):
        return "AddCategory", {"c": _s(category), "qt": _s(quantity_type), "valid": {"has": valid_units is not None, "s": [_s(u) for u in (valid_units or [])]},
                               "override": bool(override), "du": _s(default_unit), "dv": _num(default_value), "min": _num(min_value), "max": _num(max_value),
                               "minx": bool(is_min_exclusive), "maxx": bool(is_max_exclusive), "from": _s(from_category)}
    wrap("AddCategory", cat)
    wrap("Clear", lambda: ("Clear", {"x": 0}))
    wrap("GetBaseUnit", lambda quantity_type: ("GetBaseUnit", {"qt": _s(quantity_type)}), lambda out, r: out.update(t=r if r is not None else ""))
    wrap("GetDefaultUnit", lambda category: ("GetDefaultUnit", {"c": _s(category)}), lambda out, r: out.update(t=r if r is not None else ""))
    wrap("GetValidUnits", lambda category: ("GetValidUnits", {"c": _s(category)}), lambda out, r: out.update(s=list(r)))
    wrap("GetQuantityType", lambda unit: ("GetQuantityType", {"u": _s(unit)}), lambda out, r: out.update(t=r or ""))
    wrap("GetDefaultCategory", lambda unit: ("GetDefaultCategory", {"u": _s(unit)}), lambda out, r: out.update(t=r or ""))
    wrap("CheckQuantityTypeUnit", lambda quantity_type, unit: ("CheckQuantityTypeUnit", {"qt": _s(quantity_type), "u": _s(unit)}))
    wrap("CheckCategoryUnit", lambda category, unit: ("CheckCategoryUnit", {"c": _s(category), "u": _s(unit)}))

    def units_of(quantity_type=None):
        if quantity_type is None:
            return "CountUnits", {"x": 0}
        return "GetUnits", {"qt": _s(quantity_type)}
    def units_out(out, r):
        out.update(s=list(r))
    wrap("GetUnits", units_of, units_out)


def pytest_configure(config):
    if os.environ.get("BARRIL_VERIF") == "1" and os.environ.get("VERIF_SUITE_TRACE"):
        _install()


def pytest_sessionfinish(session, exitstatus):
    path = os.environ.get("VERIF_SUITE_TRACE")
    if not path or os.environ.get("BARRIL_VERIF") != "1":
        return
    with open(path, "w") as f:
        for tid, evs in _state["events"].items():
            if tid in _state["dropped"] or not evs:
                continue
            for e in evs:
                f.write(json.dumps(e) + "\n")
    with open(path + ".meta", "w") as f:
        json.dump({"histories": len(_state["events"]), "dropped": _state["dropped"], "exitstatus": int(exitstatus)}, f)
