"""C14 - the unit registry stays well-formed under any registration history (spec/Registry.tla)."""
from . import common, regcheck


def main(tier):
    rep = common.Report("C14", tier)
    bd = common.build_dir("C14")
    thorough = tier == "thorough"
    stats = {"bad": 0, "fresh": 0, "replayed": 0, "ops": {}}
    if thorough:
        regcheck.model_check(rep, bd, "registrations + buildability, depth 4", 4, "c14", "small", timeout=6000)
        regcheck.model_check(rep, bd, "registrations with up to three optional AddCategory parameters, depth 3", 3, "reg", "full", timeout=6000)
        regcheck.emit_and_replay(rep, bd, "all transitions to depth 2, mid pool", 2, "c14", "mid", stats=stats)
        regcheck.emit_parallel(rep, bd, "all transitions to depth 3", 3, "c14", "small", 12, stats)
    else:
        regcheck.model_check(rep, bd, "registrations + buildability, depth 3, up to two optional AddCategory parameters", 3, "c14", "mid")
        regcheck.emit_and_replay(rep, bd, "all transitions to depth 2", 2, "c14", "small", stats=stats)
        regcheck.emit_and_replay(rep, bd, "systematic sample of the transitions at depth 3", 3, "c14", "small", every=12,
                                 offset=common.seed() % 12, stats=stats)
    rep.count(evaluations=stats["replayed"], nontrivial=stats["replayed"], traces=stats["replayed"])
    rep.cov["replayed_by_last_op"] = stats["ops"]
    rep.cov["exhaustive"] = False
    rep.assumptions += ["pools: 2 quantity types, 4 units (+1 legacy spelling), 2 categories (one named like a quantity type); "
                        "limits and default values are small integers; unit factors are exact in binary"]
    return rep.finish(rule="every transition TLC generates for the bounded registry machine (BFS-shortest witness history) is "
                           "replayed on a fresh UnitDatabase: outcome family/value of every call and the whole projected registry "
                           "are compared; distinct = distinct (state, call) pairs of the model")
