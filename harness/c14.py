"""C14 - the unit registry stays well-formed under any registration history (spec/Registry.tla)."""
import json
import os

from . import common, export, regcheck, regtrace


def table_part(rep, bd, thorough):
    """The shipped databases: exported registry judged by RegOps's predicates, build outcomes as a trace."""
    from barril.units import Scalar, UnitDatabase

    for which in ("default", "posc_nocat", "simple"):
        table = os.path.join(bd, "table-%s.json" % which)
        db, proj = export.export(which, table)
        UnitDatabase.PushSingleton(db)
        try:
            events = []

            def build(op, fn, **kw):
                ev = dict(op=op, ok=False, valid=False, category="", unit="", qtype="", **kw)
                try:
                    s = fn()
                    ev.update(ok=True, valid=bool(s.IsValid()), category=s.GetCategory(), unit=s.GetUnit(), qtype=s.GetQuantityType())
                except Exception as e:  # noqa
                    ev["exc"] = type(e).__name__
                events.append(ev)

            units_of = {}
            for r in proj["rows"]:
                units_of.setdefault(r["qt"], []).append(r["unit"])
            for c in proj["cats"]:
                build("BuildCat", lambda: Scalar(c["cat"]), c=c["cat"])
                for u in units_of.get(c["qt"], []):
                    build("BuildCatUnit", lambda: Scalar(c["cat"], None, u), c=c["cat"], u=u)
            if which == "default":
                for r in proj["rows"]:
                    build("BuildUnit", lambda: Scalar(1.0, r["unit"]), u=r["unit"])
            trace = os.path.join(bd, "trace-%s.ndjson" % which)
            with open(trace, "w") as f:
                for ev in events:
                    f.write(json.dumps(ev) + "\n")
            out = os.path.join(bd, "out-%s.json" % which)
            r = common.run_tlc("MC_C14", "MC_C14.cfg", bd, env={"TABLE_FILE": table, "TRACE_FILE": trace, "OUT_FILE": out,
                                                              "STRONG": "1"}, workers=1, tag="table-" + which, timeout=1800)
            rep.add_tlc("shipped database '%s': registry judged by the Well_* predicates + %d build events" % (which, len(events)), r)
            if r.distinct != len(events) + 1:
                raise common.MachineryError("trace not consumed: %d states for %d events" % (r.distinct, len(events)))
            g = json.load(open(out))
            if not g["onetype"]:
                rep.violation({"check": "shipped table: unit symbol in exactly one quantity type", "db": which}, {})
            for qt in g["badbase"]:
                rep.violation({"check": "shipped table: base unit is not first/identity", "db": which, "qt": qt}, {})
            for c in g["badcats"]:
                rep.violation({"check": "shipped table: category ill-formed", "db": which, "category": c}, {})
            for u in g["baddefcat"]:
                rep.violation({"check": "shipped table: default category of a unit does not resolve", "db": which, "unit": u}, {})
            for v in r.tagged("VIOL"):
                ev = v["ev"]
                rep.violation({"check": ev["op"], "db": which, "c": ev.get("c"), "u": ev.get("u")},
                              {k: ev.get(k) for k in ("ok", "valid", "category", "unit", "qtype", "exc")})
            rep.count(evaluations=len(events) + g["nrows"] + g["ncats"], nontrivial=len(events), traces=1)
            if events:
                rep.sample(events[len(events) // 2])
        finally:
            UnitDatabase.PopSingleton()


def main(tier):
    rep = common.Report("C14", tier)
    bd = common.build_dir("C14")
    thorough = tier == "thorough"
    stats = {"bad": 0, "fresh": 0, "replayed": 0, "ops": {}}
    if thorough:
        regcheck.model_check(rep, bd, "registrations + buildability, depth 4", 4, "c14", "small", timeout=6000)
        regcheck.model_check(rep, bd, "registrations with up to three optional AddCategory parameters, depth 3", 3, "reg", "full", timeout=6000)
        regcheck.emit_and_replay(rep, bd, "all transitions to depth 2, mid pool", 2, "c14", "mid", stats=stats)
        regcheck.emit_parallel(rep, bd, "all transitions to depth 3", 3, "c14", "small", 12, stats)
    else:
        regcheck.model_check(rep, bd, "registrations + buildability, depth 3, up to two optional AddCategory parameters", 3, "c14", "mid")
        regcheck.emit_and_replay(rep, bd, "all transitions to depth 2", 2, "c14", "small", stats=stats)
        regcheck.emit_and_replay(rep, bd, "systematic sample of the transitions at depth 3", 3, "c14", "small", every=12,
                                 offset=common.sample_seed(), stats=stats)
    table_part(rep, bd, thorough)
    # direction B: recorded executions validated by TLC against the reference semantics (MC_RegTrace.tla)
    import random
    for which in ("default", "posc_nocat", "simple"):
        _db, posc = regtrace.posc_history(which)
        regtrace.validate(rep, bd, posc, "registration history of the shipped database '%s' (AddUnitBase / AddUnit / AddCategory calls)" % which, "hist-" + which)
    rng = random.Random(common.seed() + 14)
    hist = regtrace.random_histories(rng, 2000 if thorough else 400, 60 if thorough else 40, queries=False)
    regtrace.validate(rep, bd, hist, "seeded deep registration histories with the projected registry after every call", "deep")
    rep.cov["binding_self_test"] = regtrace.self_test(bd, hist)
    # ... and with lookups, value constructions and failing calls between the registrations (a registration decides what every LATER call sees)
    hist_q = regtrace.random_histories(random.Random(common.seed() + 141), 1000 if thorough else 200, 40, queries=True)
    regtrace.validate(rep, bd, hist_q, "seeded deep histories of registrations interleaved with queries and value constructions", "deepq")
    hist_i = regtrace.inspected_histories(random.Random(common.seed() + 142), 300 if thorough else 60, 12)
    regtrace.validate(rep, bd, hist_i, "step-by-step inspection: a battery of lookups and constructions after every registration call", "inspect")
    # the repository's own test-suite as a source of histories: every UnitDatabase instance a test creates is one recorded history
    # (registrations, rejected registrations, top-level queries; projected registry after each call while it is small)
    sev, sinfo = regtrace.suite_history(bd)
    if not thorough:
        by = {}
        for e in sev:
            by.setdefault(e["tid"], []).append(e)
        big = sorted((t for t in by if len(by[t]) > 300), key=lambda t: (-len(by[t]), t))
        keep = set(t for t in by if len(by[t]) <= 300) | set(big[:3]) | set(rng.sample(big[3:], min(3, len(big[3:]))))
        sev = [e for e in sev if e["tid"] in keep]
        sinfo["validated_histories"] = len(keep)
    if len(sev) < 1000:
        raise common.MachineryError("the test-suite produced only %d registry events" % len(sev))
    regtrace.validate(rep, bd, sev, "registry histories recorded while the repository's own test-suite runs", "suite")
    rep.cov["test_suite_histories"] = sinfo
    rep.count(evaluations=stats["replayed"], nontrivial=stats["replayed"], traces=stats["replayed"])
    rep.cov["replayed_by_last_op"] = stats["ops"]
    rep.cov["exhaustive"] = False
    rep.assumptions += ["pools: 2 quantity types, 4 units (+1 legacy spelling), 2 categories (one named like a quantity type); "
                        "limits and default values are small integers; unit factors are exact in binary"]
    return rep.finish(rule="every transition TLC generates for the bounded registry machine (BFS-shortest witness history) is "
                           "replayed on a fresh UnitDatabase: outcome family/value of every call and the whole projected registry "
                           "are compared; distinct = distinct (state, call) pairs of the model")
