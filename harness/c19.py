"""C19 - equivalent construction forms build equal objects (spec/MC_C19.tla; exhaustive over the real table)."""
import json
import os
import random

from . import common, export, project as P


def pj(x):
    return json.dumps(P.value_obj(x), sort_keys=True, default=str)


def build_all(forms):
    """forms: list of (name, thunk) -> (projections, all pairwise equal, first object, failures)"""
    objs = []
    fails = []
    for name, fn in forms:
        o = P.outcome(fn)
        if o[0] == "ok":
            objs.append(o[1])
        else:
            fails.append("%s raised %s" % (name, o[2]))
    eq = all((a == b) and not (a != b) for a in objs for b in objs) and not fails
    return [pj(x) for x in objs] + fails, eq, (objs[0] if objs else None)


def main(tier):
    import numpy
    from barril.basic.fraction import Fraction, FractionValue
    from barril.units import Array, FixedArray, FractionScalar, ObtainQuantity, Scalar, UnitDatabase

    rep = common.Report("C19", tier)
    bd = common.build_dir("C19")
    thorough = tier == "thorough"
    rng = random.Random(common.seed() + 19)
    table = os.path.join(bd, "table.json")
    db = export.build_db("default")
    # categories an application registers itself: non-integer / negative defaults in non-base units
    db.AddCategory("verif pipe size", "length", valid_units=["in", "ft", "cm"], default_unit="in", default_value=5.75)
    db.AddCategory("verif cold", "temperature", default_unit="degC", default_value=-2.5)
    db.AddCategory("verif rate", "volume flow rate", default_unit="bbl/d", default_value=1e-3)
    # units an application registers itself: symbols that contain a fragment the legacy rewrite knows (they are registered, so they are
    # never rewritten), and a quantity type whose unit was asked about before the category named like the type existed
    from barril.units.posc import MakeBaseToCustomary, MakeCustomaryToBase
    for qt_, sym_, k_ in (("volume flow rate", "1000m3/h", 3.6), ("volume flow rate", "1000ft3/h", 127.1), ("mole per time", "lbmole/h", 7.9)):
        if qt_ in db.quantity_types:
            db.AddUnit(qt_, "verif " + sym_, sym_, MakeBaseToCustomary(0.0, k_, 1.0, 0.0), MakeCustomaryToBase(0.0, k_, 1.0, 0.0))
    db.AddUnitBase("verif quantity", "verif base", "vqb")
    db.AddUnit("verif quantity", "verif second", "vq2", MakeBaseToCustomary(0.0, 2.0, 1.0, 0.0), MakeCustomaryToBase(0.0, 2.0, 1.0, 0.0))
    P.outcome(db.GetDefaultCategory, "vqb")
    P.outcome(Scalar, 1.0, "vq2")                  # (rightly refused: no category yet)
    P.outcome(ObtainQuantity, "vqb")
    db.AddCategory("verif quantity", "verif quantity")
    proj = export.project_db(db)
    with open(table, "w") as f:
        json.dump(proj, f)
    UnitDatabase.PushSingleton(db)
    events = []
    try:
        units_of = {}
        for r in proj["rows"]:
            units_of.setdefault(r["qt"], []).append(r["unit"])
        # a history before the forms: registrations that are refused (a symbol of the table offered again for another quantity type)
        refused = 0
        for r in rng.sample(proj["rows"], 60):
            other = "time" if r["qt"] != "time" else "length"
            o = P.outcome(lambda: db.AddUnit(other, "verif duplicate", r["unit"], "%f", "%f"))
            refused += o[0] != "ok"
        rep.cov["refused_registrations_before_the_forms"] = refused
        values = [1.5, -2.0, 0.0, 12345.678, 3, numpy.float64(2.25), numpy.float64(-0.5), 1e-7,
                  0.1 + 0.2, 100 * 1.1, 255.92777777777778, -2.0 / 3.0]      # ... and doubles that need all 17 significant digits to be told from their neighbours

        def forms_for(u, c, given):
            v = values[(len(events) + len(u)) % len(values)]
            vs = [float(v), 2.0, -1.0]
            kind = rng.choice(["list", "tuple", "ndarray", "points"])
            cont = {"list": lambda: list(vs), "tuple": lambda: tuple(vs), "ndarray": lambda: numpy.array(vs),
                    "points": lambda: [(float(v), 1.5), (2.0, 2.5), (4.0, -1.0)]}[kind]     # three points of size two
            fv = FractionValue(2, Fraction(1, 2))
            q = lambda: ObtainQuantity(u, c)
            S = [("Scalar(v,u,c)", lambda: Scalar(v, u, c)), ("Scalar(c,v,u)", lambda: Scalar(c, v, u)), ("Scalar(q,v)", lambda: Scalar(q(), v)),
                 ("Scalar.CreateWithQuantity(q,v)", lambda: Scalar.CreateWithQuantity(q(), v))]
            A = [("Array(vs,u,c)", lambda: Array(cont(), u, c)), ("Array(c,vs,u)", lambda: Array(c, cont(), u)), ("Array(q,vs)", lambda: Array(q(), cont())),
                 ("Array.CreateWithQuantity(q,vs)", lambda: Array.CreateWithQuantity(q(), cont()))]
            F = [("FixedArray(3,vs,u,c)?", None), ("FixedArray(3,c,vs,u)", lambda: FixedArray(3, c, cont(), u)), ("FixedArray(3,q,vs)", lambda: FixedArray(3, q(), cont())),
                 ("FixedArray.CreateWithQuantity(q,vs)", lambda: FixedArray.CreateWithQuantity(q(), cont()))]
            FS = [("FractionScalar(v,u,c)", lambda: FractionScalar(fv, u, c)), ("FractionScalar(c,v,u)", lambda: FractionScalar(c, fv, u)),
                  ("FractionScalar(q,v)", lambda: FractionScalar(q(), fv)), ("FractionScalar.CreateWithQuantity(q,v)", lambda: FractionScalar.CreateWithQuantity(q(), fv))]
            F = F[1:]
            # ... and a copy of a value of another category of the same quantity type, moved into this category and unit
            c0 = others_of.get(c)
            if c0 and P.outcome(db.CheckCategoryUnit, c0, u)[0] == "ok":
                S.append(("Scalar(c0,v,u).CreateCopy(unit=u,category=c)", lambda: Scalar(c0, v, u).CreateCopy(unit=u, category=c)))
                A.append(("Array(c0,vs,u).CreateCopy(unit=u,category=c)", lambda: Array(c0, cont(), u).CreateCopy(unit=u, category=c)))
                F.append(("FixedArray(3,c0,vs,u).CreateCopy(unit=u,category=c)", lambda: FixedArray(3, c0, cont(), u).CreateCopy(unit=u, category=c)))
                FS.append(("FractionScalar(c0,v,u).CreateCopy(unit=u,category=c)", lambda: FractionScalar(c0, fv, u).CreateCopy(unit=u, category=c)))
            if not given:      # the forms that rely on the unit's default category
                S = [("Scalar(v,u)", lambda: Scalar(v, u)), ("Scalar((v,u))", lambda: Scalar((v, u)))] + S
                A = [("Array(vs,u)", lambda: Array(cont(), u))] + A
                F = [("FixedArray(3,vs,u)", lambda: FixedArray(3, cont(), u))] + F
                FS = [("FractionScalar(v,u)", lambda: FractionScalar(fv, u))] + FS
            return (("Scalar", S), ("Array", A), ("FixedArray", F), ("FractionScalar", FS)), v

        def record(u, c, given):
            groups, v = forms_for(u, c, given)
            for cls, forms in groups:
                projs, eq, first = build_all(forms)
                events.append({"op": "Forms", "cls": cls, "u": u, "given_category": c if given else "", "projs": projs, "all_eq": eq,
                               "unit": first.GetUnit() if first is not None else "", "category": first.GetCategory() if first is not None else "",
                               "qtype": first.GetQuantityType() if first is not None else "", "value": repr(v)})
                if cls == "Scalar" and first is not None:
                    o = P.outcome(lambda: eval(repr(first), {"Scalar": Scalar}))
                    events.append({"op": "Repr", "u": u, "repr": repr(first), "eq": o[0] == "ok" and bool(o[1] == first),
                                   "proj1": pj(first), "proj2": pj(o[1]) if o[0] == "ok" else o[2]})

        catnames = {ci["cat"] for ci in proj["cats"]}
        bytype = {}
        for ci in proj["cats"]:
            bytype.setdefault(ci["qt"], []).append(ci["cat"])
        others_of = {}
        for qt_, cs_ in bytype.items():
            for i_, c_ in enumerate(cs_):
                if len(cs_) > 1:
                    others_of[c_] = cs_[(i_ + 1) % len(cs_)]
        for r in proj["rows"]:
            u = r["unit"]
            c = db.GetDefaultCategory(u)
            if not c:
                events.append({"op": "Forms", "cls": "-", "u": u, "given_category": "", "projs": ["no default category"], "all_eq": False, "unit": "", "category": "", "qtype": "", "value": ""})
                continue
            if r["qt"] != c and r["pos"] % 2 == 0 and r["qt"] in catnames:
                P.outcome(ObtainQuantity, u, r["qt"])       # history: the unit was first requested with the category named like its quantity type
            record(u, c, False)
        for cinfo in proj["cats"]:
            c = cinfo["cat"]
            us = units_of.get(cinfo["qt"], [])
            if not thorough and len(us) > 6:
                us = rng.sample(us, 6)
            for u in us:
                record(u, c, True)
            # the category alone
            dv, du = db.GetDefaultValue(c), db.GetDefaultUnit(c)
            for cls, forms in (("Scalar", [("Scalar(c)", lambda: Scalar(c)), ("Scalar(c,dv,du)", lambda: Scalar(c, dv, du))]),
                               ("Array", [("Array(c)", lambda: Array(c)), ("Array(c,[],du)", lambda: Array(c, [], du))]),
                               ("FractionScalar", [("FractionScalar(c)", lambda: FractionScalar(c)), ("FractionScalar(c,dv,du)", lambda: FractionScalar(c, dv, du)),
                                                   ("FractionScalar(dv,du,c)", lambda: FractionScalar(dv, du, c))])):
                projs, eq, first = build_all(forms)
                events.append({"op": "CatAlone", "cls": cls, "c": c, "projs": projs, "all_eq": eq, "unit": first.GetUnit() if first is not None else "",
                               "category": first.GetCategory() if first is not None else "", "qtype": first.GetQuantityType() if first is not None else ""})
            if rng.random() < 0.2:     # a client changes the values list it got from an Array built from the category alone
                a0 = Array(c)
                vals = a0.GetValues()
                if isinstance(vals, list):
                    vals.append(1500.0)
    finally:
        UnitDatabase.PopSingleton()
    common.judge_trace(rep, bd, events, "construction forms of every unit, (unit, category) pair and category of the real table", module="MC_C19",
                       tag="judge", env={"TABLE_FILE": table},
                       key_of=lambda ev: {"check": ev["op"], "cls": ev.get("cls"), "u": ev.get("u"), "c": ev.get("c") or ev.get("given_category")})
    rep.cov["exhaustive"] = thorough
    rep.assumptions += ["values cycle through python floats, an int, numpy.float64 values; containers list / tuple / ndarray (seeded)",
                        "quick: up to 6 seeded units per category for the explicit-category forms; thorough: all"]
    return rep.finish(rule="all 1548 units x 4 classes x every documented construction form (default category computed by TLC from the exported "
                           "table); every category x units of its type x explicit-category forms; every category alone; eval(repr) of every "
                           "simple Scalar - each event validated by TLC")
