"""The abstraction function: live barril objects -> JSON-able descriptors (DESIGN 4.1).

Only public getters are used where they exist.  Floats are projected by num(): a finite float is
its repr string, NaN / +inf / -inf are tokens, so that projections can be compared with ==.
"""
import math


def num(x):
    try:
        import numpy

        if isinstance(x, numpy.generic):
            x = x.item()
    except Exception:
        pass
    if isinstance(x, bool):
        return "bool:%s" % x
    if isinstance(x, int):
        return "int:%d" % x
    if isinstance(x, float):
        if math.isnan(x):
            return "NAN"
        if math.isinf(x):
            return "PINF" if x > 0 else "NINF"
        return repr(x)
    return "%s:%r" % (type(x).__name__, x)


def fnum(x):
    """Projection of a numeric value ignoring the int/float distinction."""
    try:
        return num(float(x))
    except Exception:
        return num(x)


FAMILIES = None


def exc_family(e):
    from barril.units.unit_database import UnitsError

    if isinstance(e, UnitsError):
        return "UNITS"
    if isinstance(e, TypeError):
        return "TYPE"
    if isinstance(e, ValueError):
        return "VALUE"
    if isinstance(e, AssertionError):
        return "ASSERT"
    if isinstance(e, KeyError):
        return "KEY"
    if isinstance(e, IndexError):
        return "INDEX"
    if isinstance(e, ZeroDivisionError):
        return "ZERODIV"
    if isinstance(e, NotImplementedError):
        return "NOTIMPL"
    if isinstance(e, RuntimeError):
        return "RUNTIME"
    return "OTHER"


def outcome(fn, *a, **k):
    """Run fn; return ('ok', value) or ('exc', family, classname)."""
    try:
        return ("ok", fn(*a, **k))
    except Exception as e:  # noqa
        return ("exc", exc_family(e), type(e).__name__)


def quantity(q):
    ents = [[c, u, e] for c, (u, e) in q.GetCategoryToUnitAndExps().items()]
    return {
        "ents": ents,
        "cap": q.GetUnknownCaption() if hasattr(q, "GetUnknownCaption") else "",
        "category": q.GetCategory(),
        "qtype": q.GetQuantityType(),
        "unit": q.GetUnit(),
        "derived": bool(q.IsDerived()) if hasattr(q, "IsDerived") else None,
    }


def container_kind(v):
    import numpy

    if isinstance(v, numpy.ndarray):
        return "ndarray"
    if isinstance(v, tuple):
        return "tuple"
    if isinstance(v, list):
        return "list"
    return type(v).__name__


def values(vs):
    out = []
    for v in vs:
        if isinstance(v, (tuple, list)):
            out.append([fnum(x) for x in v])
        else:
            out.append(fnum(v))
    return out


def value_obj(x):
    """Scalar / Array / FixedArray / FractionScalar -> descriptor."""
    from barril.units import Array, FixedArray, FractionScalar, Scalar

    d = {"cls": type(x).__name__, "q": quantity(x.GetQuantity())}
    if isinstance(x, FixedArray):
        d["dim"] = x.dimension
    if isinstance(x, Array):
        v = x.GetAbstractValue()
        d["kind"] = container_kind(v)
        d["vs"] = values(v)
    elif isinstance(x, FractionScalar):
        fv = x.GetAbstractValue()
        d["fv"] = fraction_value(fv)
    elif isinstance(x, Scalar):
        d["v"] = fnum(x.GetAbstractValue())
    return d


def fraction(f):
    if f is None:
        return None
    return [fnum(f.numerator), fnum(f.denominator)]


def fraction_value(fv):
    return {"number": fnum(fv.GetNumber()), "frac": fraction(fv.GetFraction())}


def any_obj(x):
    from barril.units import Quantity
    from barril.units._abstractvaluewithquantity import AbstractValueWithQuantityObject

    if isinstance(x, Quantity):
        return {"cls": "Quantity", "q": quantity(x)}
    if isinstance(x, AbstractValueWithQuantityObject):
        return value_obj(x)
    if isinstance(x, (int, float)):
        return fnum(x)
    if isinstance(x, (list, tuple)):
        return [any_obj(y) for y in x]
    try:
        import numpy

        if isinstance(x, numpy.ndarray):
            return {"cls": "ndarray", "vs": values(x.tolist())}
    except Exception:
        pass
    if x is None or isinstance(x, (str, bool)):
        return x
    return {"cls": type(x).__name__, "repr": repr(x)}


def out_proj(o):
    """Projection of an outcome() triple."""
    if o[0] == "ok":
        return {"ok": any_obj(o[1])}
    return {"exc": o[1], "cls": o[2]}
