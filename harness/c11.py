"""C11 - size invariants of FixedArray and Curve (spec/FixedArr.tla)."""
import pickle
import random

from . import common, export, project as P


def consts(maxcalls, emit="0", every=1, offset=0):
    return {"MaxCalls": maxcalls, "MaxDim": 4, "EmitMode": emit, "EmitEvery": every, "EmitOffset": offset}


class World:
    def __init__(self, k, rng):
        from barril.curve.curve import Curve
        from barril.units import Array

        self.pool = []
        self.rng = rng
        self.curve = None if k < 0 else Curve(Array([100.0 + i for i in range(k)], "m"), Array([float(i) for i in range(k)], "s"))

    def cont(self, vals):
        import numpy

        kind = self.rng.choice(["list", "tuple", "ndarray", "intarray"])
        return {"list": list(vals), "tuple": tuple(vals), "ndarray": numpy.array(vals, dtype=float),
                "intarray": numpy.array([int(v) for v in vals])}[kind]

    def call(self, c):
        from barril.units import Array, FixedArray, ObtainQuantity, Scalar

        op = c["op"]
        def vals(n):
            if c.get("form") == "points":
                import numpy
                pts = [(float(i + 1), float(i + 1) + 0.5) for i in range(n)]
                return self.rng.choice([lambda: list(pts), lambda: tuple(pts), lambda: numpy.array(pts, dtype=float).reshape(n, 2)])()
            return self.cont([float(i + 1) for i in range(n)])
        q = lambda u: ObtainQuantity(u, "length")
        if op == "Ctor":
            f = c.get("form", "")
            if f == "category":
                return FixedArray(c["d"], "length", vals(c["n"]), c["u"])
            if f == "quantity":
                return FixedArray(c["d"], q(c["u"]), vals(c["n"]))
            if f == "kwvalues":
                return FixedArray(c["d"], q(c["u"]), values=vals(c["n"])) if c["n"] % 2 else FixedArray(c["d"], "length", values=vals(c["n"]), unit=c["u"])
            return FixedArray(c["d"], vals(c["n"]), c["u"])
        if op == "CtorDefault":
            return FixedArray(c["d"], "length")
        if op == "CreateWithQuantity":
            if c["d"] == -1:
                return FixedArray.CreateWithQuantity(q(c["u"]), vals(c["n"]))
            return FixedArray.CreateWithQuantity(q(c["u"]), vals(c["n"]), dimension=c["d"])
        if op == "CreateEmptyArray":
            return FixedArray.CreateEmptyArray(c["d"]) if c["n"] == -1 else FixedArray.CreateEmptyArray(c["d"], vals(c["n"]))
        a = self.pool[c["i"] - 1] if c["i"] else None
        if op == "CreateCopy":
            return a.CreateCopy() if c["n"] == -1 else a.CreateCopy(values=vals(c["n"]))
        if op == "CopyToUnit":
            return a.CreateCopy(unit=c["u"])
        if op == "CopyValuesTo":
            return a.CreateCopy(values=vals(c["n"]), unit=c["u"]) if c["form"] == "unit" else a.CreateCopy(values=vals(c["n"]), unit=c["u"], category="length")
        if op == "Pickle":
            return pickle.loads(pickle.dumps(a))
        if op == "Scale":
            return a * 2
        if op == "AddArrays":
            return a + self.pool[c["j"] - 1]
        if op == "ChangingIndex":
            f = c["form"]
            if f == "number":
                return a.ChangingIndex(c["idx"], 7.5)
            if f == "scalar":
                return a.ChangingIndex(c["idx"], Scalar(7.5, c["u"]))
            if f == "keep":
                return a.ChangingIndex(c["idx"], Scalar(7.5, c["u"]), use_value_unit=False)
            if f == "tuplekeep":
                return a.ChangingIndex(c["idx"], (None, c["u"]))
            return a.ChangingIndex(c["idx"], (7.5, c["u"]))
        if op == "IndexAsScalar":
            return a.IndexAsScalar(c["idx"], q(c["u"]))
        if op == "CurveLen":
            return float(self.curve.GetLength())
        if op == "CurveItem":
            import numpy
            d_, i_ = self.curve[c["idx"]]
            d0, i0 = float(numpy.ravel(d_)[0]), float(numpy.ravel(i_)[0])
            if i0 != d0 + 100.0:     # (image amounts are 100 + position, domain amounts the position)
                raise AssertionError("curve[%d] pairs domain %r with image %r" % (c["idx"], d_, i_))
            return d0
        if op in ("SetImage", "SetDomain"):
            import numpy
            flat = [float(i) + (100.0 if op == "SetImage" else 0.0) for i in range(c["n"])]
            if c.get("form") == "prop":
                if op == "SetImage":
                    self.curve.image = Array(flat, "m")
                else:
                    self.curve.domain = Array(flat, "s")
                return None
            vals_ = flat if c.get("form", "") == "" else [(x, x + 0.5) for x in flat]
            if c.get("form") == "points2d":
                vals_ = numpy.array(vals_, dtype=float).reshape(c["n"], 2)
            return self.curve.SetImage(Array(vals_, "m")) if op == "SetImage" else self.curve.SetDomain(Array(vals_, "s"))
        raise KeyError(op)

    def snapshot(self):
        cv = None if self.curve is None else (len(self.curve.GetImage().GetValues()), len(self.curve.GetDomain().GetValues()))
        return [(type(x).__name__, x.dimension, [float(v) for v in x.GetAbstractValue()], x.GetUnit()) for x in self.pool], cv


APP = ("Ctor", "CtorDefault", "CreateWithQuantity", "CreateEmptyArray", "CreateCopy", "CopyToUnit", "CopyValuesTo", "Pickle", "Scale", "AddArrays", "ChangingIndex")


def short(h):
    return ["%s(%s)" % (s["c"]["op"], ", ".join("%s=%s" % (k, v) for k, v in sorted(s["c"].items()) if k != "op" and v not in (-1, 0, "", "m") or k in ("d", "n") and v != -1)) for s in h]


def replay_one(t, rep, rng, curve0):
    h = t["h"]
    w = World(curve0, rng)
    for i, s in enumerate(h):
        c = s["c"]
        last = i == len(h) - 1
        before = w.snapshot()
        o = P.outcome(w.call, c)
        ok = o[0] == "ok"
        d = []
        if ok != bool(s["ok"]):
            d.append("predicted %s observed %s" % ("ok" if s["ok"] else s["exc"], "ok" if ok else "%s (%s)" % (o[1], o[2])))
        elif not ok:
            if o[1] != s["exc"]:
                d.append("exception family predicted %s observed %s (%s)" % (s["exc"], o[1], o[2]))
            if w.snapshot() != before:
                d.append("a rejected call changed its source / the curve")
        elif c["op"] in APP:
            r = o[1]
            a = s["a"]
            want = [v[0] / v[1] for v in a["vs"]]
            if type(r).__name__ != "FixedArray":
                d.append("result class %s" % type(r).__name__)
            elif c.get("form") == "points":
                if r.dimension != a["dim"] or len(r.GetAbstractValue()) != r.dimension or r.dimension < 2:
                    d.append("dimension %r, %d points; predicted dimension %d" % (r.dimension, len(r.GetAbstractValue()), a["dim"]))
            else:
                vals = [float(v) for v in r.GetAbstractValue()]
                if r.dimension != a["dim"] or len(vals) != r.dimension or r.dimension < 2:
                    d.append("dimension %r, %d values; predicted dimension %d" % (r.dimension, len(vals), a["dim"]))
                elif any(abs(x - y) > 1e-9 * max(1.0, abs(y)) for x, y in zip(vals, want)) or r.GetUnit() != a["u"]:
                    d.append("values/unit predicted %r %s observed %r %s" % (want, a["u"], vals, r.GetUnit()))
                if c["op"] in ("Pickle", "CreateCopy") and c.get("n", -1) == -1 and not (r == w.pool[c["i"] - 1]):
                    d.append("copy / pickle is not equal to its source")
                w.pool.append(r)
        elif c["op"] == "IndexAsScalar":
            want = s["x"][0] / s["x"][1]
            if type(o[1]).__name__ != "Scalar" or abs(o[1].GetValue() - want) > 1e-9 * max(1.0, abs(want)) or o[1].GetUnit() != c["u"]:
                d.append("IndexAsScalar predicted %r %s observed %r" % (want, c["u"], o[1]))
        elif c["op"] in ("CurveLen", "CurveItem"):
            want = s["x"][0] / s["x"][1]
            if not isinstance(o[1], float) or o[1] != want:
                d.append("%s predicted %r observed %r" % (c["op"], want, o[1]))
        if ok and w.snapshot()[0][:len(before[0])] != before[0]:
            d.append("an existing array changed")
        cv = w.snapshot()[1]
        if cv is not None and cv[0] != cv[1]:
            d.append("the curve holds an image of length %d and a domain of length %d" % cv)
        if d:
            rep.violation({"check": "outcome", "op": c["op"], "args": {k: v for k, v in c.items() if k != "op"}, "after": short(h[:i])}, {"diff": d, "history": short(h[:i + 1])})
            return


def main(tier):
    from barril.units import UnitDatabase

    rep = common.Report("C11", tier)
    bd = common.build_dir("C11")
    thorough = tier == "thorough"
    rng = random.Random(common.seed() + 11)
    r = common.run_tlc("MC_FixedArr", "MC_FixedArr.cfg", bd, consts=consts(4 if thorough else 3), coverage=False, tag="mc", timeout=6000)
    rep.add_tlc("FixedArray / Curve machine, every entry route, dimensions and lengths 0..4, chains of %d calls" % (4 if thorough else 3), r)
    if r.violated:
        raise common.MachineryError("the specification itself violates %s\n%s" % (r.violated, "\n".join(common.tlc_counterexample(r.stdout, 60))))
    # histories of any length: every pool of up to two arrays that satisfies SizeInvariant and every curve that satisfies CurveInvariant take every
    # call once; the invariants hold again and the action properties hold for the step (the pool is append-only, a call reads at most two members)
    ri = common.run_tlc("MC_FixedArrInd", "MC_FixedArrInd.cfg", bd, consts={"MaxDim": 4 if thorough else 3}, coverage=False, tag="inductive", timeout=6000)
    rep.add_tlc("inductive check: every invariant-satisfying pool of up to two arrays (dimensions 2..%d) and curve x every call" % (4 if thorough else 3), ri)
    if ri.violated:
        raise common.MachineryError("the specification is not inductive: %s\n%s" % (ri.violated, "\n".join(common.tlc_counterexample(ri.stdout, 60))))
    db = export.build_db("default")
    UnitDatabase.PushSingleton(db)
    n = 0
    ops = {}
    try:
        runs = [(2, 1, 0), (3, 4 if not thorough else 1, common.sample_seed())]
        for depth, every, off in runs:
            r = common.run_tlc("MC_FixedArr", "MC_FixedArr.cfg", bd, consts=consts(depth, "all" if every == 1 else "sample", every, off),
                               workers=1 if every == 1 else 8, coverage=False, tag="emit-%d" % depth, timeout=6000)
            rep.add_tlc("emission of chains of %d calls (1/%d)" % (depth, every), r)
            trs = r.tagged("TR")
            if not trs:
                raise common.MachineryError("no transitions emitted")
            for t in trs:
                hist = t["h"]
                replay_one(t, rep, rng, hist[0]["cv"])      # cv: length of the curve's arrays before the step
                n += 1
                op = hist[-1]["c"]["op"]
                ops[op] = ops.get(op, 0) + 1
            rep.sample({"history": short(trs[len(trs) // 2]["h"])})
    finally:
        UnitDatabase.PopSingleton()
    rep.count(evaluations=n, nontrivial=n, traces=n)
    rep.cov["replayed_by_last_op"] = ops
    rep.assumptions += ["values 1..n in a seeded container kind (list / tuple / float ndarray / integer ndarray); units m and cm of category length; supplied amount 7.5"]
    return rep.finish(rule="every transition TLC generates for the bounded FixedArray / Curve machine (constructor forms, CreateWithQuantity with and "
                           "without dimension, CreateEmptyArray, CreateCopy with / without values and to another unit, pickling, arithmetic, ChangingIndex "
                           "in four value forms, IndexAsScalar, SetImage / SetDomain) replayed: outcome family, dimension, values, unit, source unchanged")
