"""Driver of the quantity-algebra machine (spec/QAlg.tla) on the real default database: C03, C04, C05, C07, C13, C20.

TLC explores every expression program of the bounded instance and checks the properties on the
transcribed algorithms; every emitted transition (initial atoms + calls + predicted outcome of the last
call) is executed on real Scalars of the default POSC database and compared: outcome family, composing
map, value, the four strings, repr/str.  While replaying, the harness also runs the monitors that need
no prediction at all: every pool member, every Quantity it has seen and every quantity in the database's
cache is snapshotted before the last call and re-projected after it (C07, C13), Quantity ==/hash are
compared pairwise with descriptor equality (C07), copies and pickles must equal their source (C13).
"""
import copy
import os
import pickle

from . import common, export, project as P, qtab


def consts(depth, slots, ops, emit="0", every=1, offset=0, seeds=True):
    return {"Depth": depth, "NSlots": slots, "Ops": "<- Ops" + ops.capitalize(), "SeedOps": "<- SeedsMulDiv" if seeds else "<- SeedsNone",
            "EmitMode": emit, "EmitEvery": every, "EmitOffset": offset}


class Env:
    """One default database for a whole check run (pushed as singleton) + the generated table module."""

    def __init__(self, bd):
        from barril.units import UnitDatabase

        self.UnitDatabase = UnitDatabase
        self.db = export.build_db("default")
        UnitDatabase.PushSingleton(self.db)
        self.lib = common.write_data_module(os.path.join(bd, "lib"), "QTabData", {"QTab": qtab.export(self.db)})

    def close(self):
        self.UnitDatabase.PopSingleton()


ATOMS_U = [("length", "m"), ("length", "cm"), ("depth", "km"), ("time", "s"), ("Unknown", "<unknown>"), ("dimensionless", "-")]


def unknown_lib(env, bd):
    """A second unit table for the same machine: the 'Unknown' quantity type and the dimensionless unit as operands (DESIGN 12.6)."""
    if not hasattr(env, "lib_u"):
        env.lib_u = common.write_data_module(os.path.join(bd, "lib-u"), "QTabData", {"QTab": qtab.export(env.db, ATOMS_U)})
    return env.lib_u


def model_check(rep, bd, env, name, depth, slots, ops, seeds=True, timeout=3000, library=None):
    r = common.run_tlc("MC_QAlg", "MC_QAlg.cfg", bd, consts=consts(depth, slots, ops, seeds=seeds), coverage=False, library=library or env.lib,
                       tag="mc-%d-%d-%s-%s" % (depth, slots, ops, seeds), timeout=timeout)
    rep.add_tlc(name, r, note="Depth=%d NSlots=%d Ops=%s seeds=%s" % (depth, slots, ops, seeds))
    if r.violated:
        raise common.MachineryError("the specification itself violates %s\n%s" % (r.violated, "\n".join(common.tlc_counterexample(r.stdout, 80))))
    return r


def light_digest(db):
    return (len(db.unit_to_unit_info), len(db.quantity_types), len(db.categories_to_quantity_types),
            sum(len(v) for v in db.quantity_types.values()),
            tuple((len(ci.valid_units) if ci.valid_units is not None else -1, ci.default_unit)
                  for ci in db.categories_to_quantity_types.values()))


def q_snapshot(q):
    return (tuple((c, u, e) for c, (u, e) in q.GetCategoryToUnitAndExps().items()), q.GetUnknownCaption() or "", q.GetCategory(),
            q.GetQuantityType(), q.GetUnit(), q.GetUnitName(), hash(q), tuple(map(tuple, q.GetComposingUnitsJoiningExponents())))


def v_snapshot(x):
    return (type(x).__name__, P.fnum(x.GetAbstractValue()), id(x.GetQuantity()), q_snapshot(x.GetQuantity()))


def short(t):
    vals = [2, 3, 5, 7]
    ini = []
    for k, r in enumerate(t["init"]):
        a = "%d %s[%s]" % (vals[2 * k], r["a"][1], r["a"][0])
        ini.append(a if not r["op"] else "%s.%s[%s]" % (a, r["b"][1], r["b"][0]) if r["op"] == "Raw" else "(%s %s %d %s[%s])" % (a, r["op"], vals[2 * k + 1], r["b"][1], r["b"][0]))
    calls = []
    for c in t["h"]:
        if c["op"] == "Pow":
            calls.append("p%d ** %d" % (c["i"], c["n"]))
        elif c["op"] == "GetValue":
            calls.append("p%d.GetValue(%s)" % (c["i"], c["u"]))
        else:
            calls.append("p%d %s p%d" % (c["i"], c["op"], c["j"]))
    return {"pool": ini, "calls": calls}


def execute(pool, c):
    import operator

    a = pool[c["i"] - 1]
    op = c["op"]
    if op == "Pow":
        return a ** c["n"]
    if op == "GetValue":
        return a.GetValue(c["u"])
    b = pool[c["j"] - 1]
    return {"Mul": operator.mul, "Div": operator.truediv, "FloorDiv": operator.floordiv, "Add": operator.add, "Sub": operator.sub,
            "Lt": operator.lt}[op](a, b)


APPENDS = ("Mul", "Div", "FloorDiv", "Add", "Sub", "Pow")


def execute_array(pool, c):
    """The call on Arrays; Array has no ** operator: a power is the n-fold product."""
    if c["op"] == "Pow":
        a = pool[c["i"] - 1]
        r = a
        for _ in range(c["n"] - 1):
            r = r * a
        return r
    return execute(pool, c)


def replay(t, rep, env, stats):
    from barril.units import Quantity, Scalar

    db = env.db
    key = short(t)
    h = t["h"]
    try:
        pool = []
        vals = [2.0, 3.0, 5.0, 7.0]
        for k, r in enumerate(t["init"]):
            a = Scalar(vals[2 * k], r["a"][1], r["a"][0])
            if r["op"] == "Raw":
                import collections
                a = Scalar(Quantity.CreateDerived(collections.OrderedDict([(r["a"][0], [r["a"][1], 1]), (r["b"][0], [r["b"][1], 1])])), vals[2 * k])
            elif r["op"]:
                b = Scalar(vals[2 * k + 1], r["b"][1], r["b"][0])
                a = a * b if r["op"] == "Mul" else a / b
            pool.append(a)
        for c in h[:-1]:
            r = execute(pool, c)
            if c["op"] in APPENDS:
                pool.append(r)
    except Exception as e:  # noqa
        rep.violation({"check": "setup step raised (predicted to succeed)", "program": key}, {"exc": type(e).__name__, "msg": str(e)[:200]})
        return
    last = h[-1]
    # ---- snapshots for the monitors (no prediction involved)
    snap_pool = [v_snapshot(x) for x in pool]
    if len(db.quantities_cache) > 300:      # keep the monitored cache small (the monitor is linear in its size)
        db.quantities_cache.clear()
    cache_before = {id(q): (q, q_snapshot(q)) for q in list(db.quantities_cache.values())}
    # the full registry digest is expensive (1548 rows): 1/40 of the steps; every step gets the light digest
    # (sizes of the three maps, valid-unit list lengths and default units of all categories)
    check_reg = stats["replayed"] % 40 == 0
    reg_before = env.digest() if check_reg else None
    light_before = light_digest(db)
    o = P.outcome(execute, pool, last)
    ok = o[0] == "ok"
    # ---- outcome vs prediction
    diffs = []
    if ok != bool(t["ok"]):
        diffs.append("predicted %s observed %s" % ("ok" if t["ok"] else t["exc"], "ok" if ok else "%s (%s)" % (o[1], o[2])))
    elif not ok:
        if o[1] != t["exc"]:
            diffs.append("exception family: predicted %s observed %s (%s)" % (t["exc"], o[1], o[2]))
    else:
        res = t["res"]
        want = res["v"][0] / res["v"][1] if res["v"][1] else None
        scale = max(abs(want or 0.0), t["sc"][0] / t["sc"][1] if t["sc"][1] else 0.0)
        r = o[1]
        if last["op"] == "Lt":
            if t.get("tie") and last["i"] != last["j"]:
                pass        # physically equal amounts reached through different float computations: rounding-indeterminate (DESIGN 8)
            elif bool(r) != (want == 1):
                diffs.append("a < b: predicted %s observed %s" % (want == 1, r))
        elif last["op"] == "GetValue":
            if want is not None and not abs(r - want) <= 1e-9 * max(scale, 1e-300):
                diffs.append("value: predicted %r observed %r" % (res["v"], r))
        else:
            if type(r).__name__ != "Scalar":
                diffs.append("result class %s" % type(r).__name__)
            q = r.GetQuantity()
            ents = [[c, u, e] for c, (u, e) in q.GetCategoryToUnitAndExps().items()]
            pq = [[e["c"], e["u"], e["e"]] for e in res["q"]]
            if ents != pq:
                diffs.append("composing map: predicted %r observed %r" % (pq, ents))
            if last["op"] == "FloorDiv":
                # "up to flooring": the float quotient may fall on the other side of an integer
                if want is not None and not (abs(r.GetValue() - want) <= 1.0 + 1e-9 * abs(want) and r.GetValue() == int(r.GetValue())):
                    diffs.append("value: predicted floor %r observed %r" % (res["v"], r.GetValue()))
            elif want is not None and not abs(r.GetValue() - want) <= 1e-9 * max(scale, 1e-300):
                diffs.append("value: predicted %r (%r) observed %r" % (res["v"], want, r.GetValue()))
            obs = {"unit": r.GetUnit(), "cat": r.GetCategory(), "qt": r.GetQuantityType(), "name": q.GetUnitName()}
            for k in ("unit", "cat", "qt", "name"):
                if obs[k] != res[k]:
                    diffs.append("%s string: predicted %r observed %r" % (k, res[k], obs[k]))
            if not repr(r).endswith(", %r, %r)" % (res["unit"], res["cat"])):
                diffs.append("repr %r does not show unit %r / category %r" % (repr(r), res["unit"], res["cat"]))
            if res["unit"] and not str(r).endswith("[%s]" % res["unit"]):
                diffs.append("str %r does not show unit %r" % (str(r), res["unit"]))
            pool.append(r)
            # the same operation on the Quantity objects themselves (Quantity.__mul__ / __truediv__ / __pow__ / + / -) gives the
            # quantity of the Scalar result; numbers are ignored by quantity arithmetic
            try:
                qa = pool[last["i"] - 1].GetQuantity()
                if last["op"] == "FloorDiv":
                    qr = qa / pool[last["j"] - 1].GetQuantity()       # Quantity has no // (the quantity of a floor division is that of the division)
                elif last["op"] == "Pow":
                    qr = qa ** last["n"]
                else:
                    qb = pool[last["j"] - 1].GetQuantity()
                    qr = {"Mul": lambda: qa * qb, "Div": lambda: qa / qb, "Add": lambda: qa + qb, "Sub": lambda: qa - qb}[last["op"]]()
                if not (qr == q) or not ((qa * 2) == qa):
                    diffs.append("Quantity arithmetic gives %r, the Scalar result has %r" % (q_snapshot(qr)[0], q_snapshot(q)[0]))
            except Exception as e:  # noqa
                diffs.append("Quantity arithmetic raised %s: %s" % (type(e).__name__, str(e)[:100]))
            # copies and pickles equal their source (C13); quantity copies are identical, pickles equal (C07)
            for name, fn in (("copy", copy.copy), ("deepcopy", copy.deepcopy), ("CreateCopy", lambda x: x.CreateCopy()),
                             ("pickle", lambda x: pickle.loads(pickle.dumps(x)))):
                try:
                    y = fn(r)
                    if not (y == r) or (y != r) or v_snapshot(y)[:2] != v_snapshot(r)[:2] or v_snapshot(y)[3] != v_snapshot(r)[3]:
                        diffs.append("%s of the result is not equal to it" % name)
                except Exception as e:  # noqa
                    diffs.append("%s of the result raised %s" % (name, type(e).__name__))
            if copy.copy(q) is not q or copy.deepcopy(q) is not q:
                diffs.append("copy of a Quantity is not the identical object")
            try:
                q2 = pickle.loads(pickle.dumps(q))
                if not (q2 == q) or hash(q2) != hash(q):
                    diffs.append("pickled Quantity not equal / different hash")
            except Exception as e:  # noqa
                diffs.append("pickle of the Quantity raised %s" % type(e).__name__)
    if diffs:
        rep.violation({"check": "outcome", "op": last["op"], "program": key}, {"diff": diffs[:6]})
        stats["bad"] += 1
    # ---- the same program on Arrays (element by element): a numpy-backed and a list-backed pool, every element equal to the
    # Scalar's amount; the last call is executed twice (an operand changed in place shows in the second result)
    if ok and last["op"] in APPENDS and stats["replayed"] % 2 == 0 and not diffs:
        import numpy
        from barril.units import Array
        want_val = pool[-1].GetValue()
        want_q = pool[-1].GetQuantity()
        for kind in ("ndarray", "list"):
            mk = (lambda v: numpy.array([v, v])) if kind == "ndarray" else (lambda v: [v, v])
            try:
                apool = []
                vals = [2.0, 3.0, 5.0, 7.0]
                for k, r in enumerate(t["init"]):
                    a = Array(mk(vals[2 * k]), r["a"][1], r["a"][0])
                    if r["op"] == "Raw":
                        a = Array(pool[k].GetQuantity(), mk(vals[2 * k]))
                    elif r["op"]:
                        b = Array(mk(vals[2 * k + 1]), r["b"][1], r["b"][0])
                        a = a * b if r["op"] == "Mul" else a / b
                    apool.append(a)
                for c in h[:-1]:
                    if c["op"] in APPENDS:
                        apool.append(execute_array(apool, c))
                before = [[float(z) for z in x.GetAbstractValue()] for x in apool]
                r1 = execute_array(apool, last)
                r2 = execute_array(apool, last)
                v1 = [float(z) for z in r1.GetAbstractValue()]
                v2 = [float(z) for z in r2.GetAbstractValue()]
                tol = 1e-9 * max(abs(want_val), scale, 1e-300) if last["op"] != "FloorDiv" else 1.0 + 1e-9 * abs(want_val)
                adiff = []
                if any(abs(z - want_val) > tol for z in v1):
                    adiff.append("Array[%s] elements %r, the Scalars give %r" % (kind, v1, want_val))
                if any(abs(a_ - b_) > 1e-12 * max(abs(a_), abs(b_), 1e-300) for a_, b_ in zip(v1, v2)):
                    adiff.append("Array[%s]: the same operation repeated gives %r then %r" % (kind, v1, v2))
                if not (r1.GetQuantity() == want_q):
                    adiff.append("Array[%s] result quantity differs from the Scalar result" % kind)
                if [[float(z) for z in x.GetAbstractValue()] for x in apool] != before:
                    adiff.append("Array[%s]: an operand's values changed" % kind)
                if adiff:
                    rep.violation({"check": "the program on Arrays", "op": last["op"], "program": key}, {"diff": adiff})
                    stats["bad"] += 1
            except Exception as e:  # noqa
                rep.violation({"check": "the program on Arrays raised", "op": last["op"], "program": key, "container": kind}, {"exc": type(e).__name__, "msg": str(e)[:200]})
                stats["bad"] += 1
    # ---- monitors
    for k, x in enumerate(pool[:len(snap_pool)]):
        if v_snapshot(x) != snap_pool[k]:
            rep.violation({"check": "operand changed", "op": last["op"], "program": key}, {"member": k + 1, "before": snap_pool[k], "after": v_snapshot(x)})
            stats["bad"] += 1
            break
    for qid, (q, s0) in cache_before.items():
        if q_snapshot(q) != s0:
            rep.violation({"check": "cached quantity changed", "op": last["op"], "program": key}, {"before": s0, "after": q_snapshot(q)})
            stats["bad"] += 1
            break
    if (check_reg and env.digest() != reg_before) or light_digest(db) != light_before:
        rep.violation({"check": "unit database changed", "op": last["op"], "program": key}, {})
        stats["bad"] += 1
    # Quantity equality / hash against descriptor equality, pairwise over the pool
    qs = [x.GetQuantity() for x in pool]
    maps = [(tuple((c, u, e) for c, (u, e) in q.GetCategoryToUnitAndExps().items()), q.GetUnknownCaption() or "") for q in qs]
    for i in range(len(qs)):
        for j in range(len(qs)):
            a, b = qs[i], qs[j]
            same = maps[i] == maps[j]
            if (a == b) != same or (a != b) == same or (same and hash(a) != hash(b)):
                rep.violation({"check": "Quantity equality/hash vs composing map", "program": key},
                              {"i": i + 1, "j": j + 1, "eq": a == b, "same_map": same, "hashes": [hash(a), hash(b)]})
                stats["bad"] += 1
                return


def emit_and_replay(rep, bd, env, name, depth, slots, ops, every, offset, stats, seeds=True, timeout=3000, library=None):
    r = common.run_tlc("MC_QAlg", "MC_QAlg.cfg", bd, consts=consts(depth, slots, ops, "all" if every == 1 else "sample", every, offset, seeds),
                       workers=1 if every == 1 else 8, coverage=False, library=library or env.lib,
                       tag="emit-%d-%d-%s-%s" % (depth, slots, ops, seeds), timeout=timeout)
    rep.add_tlc(name, r, note="emission Depth=%d NSlots=%d Ops=%s seeds=%s every=%d offset=%d" % (depth, slots, ops, seeds, every, offset))
    if r.violated:
        raise common.MachineryError("the specification itself violates %s" % r.violated)
    trs = r.tagged("TR")
    if not trs:
        raise common.MachineryError("no transitions emitted (%s)" % name)
    for t in trs:
        replay(t, rep, env, stats)
        stats["replayed"] += 1
        op = t["h"][-1]["op"]
        stats["ops"][op] = stats["ops"].get(op, 0) + 1
        if not t["ok"]:
            stats["rejected"] += 1
    t = trs[len(trs) // 2]
    rep.sample({"program": short(t), "predicted": {"ok": t["ok"], "exc": t["exc"], "unit": t["res"]["unit"], "category": t["res"]["cat"], "value": t["res"]["v"]}})
    return stats


def new_stats():
    return {"bad": 0, "replayed": 0, "rejected": 0, "ops": {}}


def run(pid, tier, focus, text):
    """Common body of C03 / C04 / C05 / C07 / C13 / C20: focus = ops of the last step ('sum', 'prod', 'fail', 'all')."""
    rep = common.Report(pid, tier)
    bd = common.build_dir(pid)
    thorough = tier == "thorough"
    env = Env(bd)
    try:
        from .c15 import digest
        env.digest = lambda: digest(env.db)
        stats = new_stats()
        sd = common.seed()
        n1 = {"sum": 8, "prod": 14, "fail": 12, "all": 40}[focus]
        n3 = {"sum": 40, "prod": 80, "fail": 40, "all": 160}[focus]
        if thorough:
            model_check(rep, bd, env, "two seeds (atoms or one product/quotient/square of atoms), 2 steps", 2, 2, focus, timeout=9000)
            model_check(rep, bd, env, "two atoms, 3 steps", 3, 2, focus, seeds=False, timeout=9000)
            emit_and_replay(rep, bd, env, "two seeds, 1 step: all transitions", 1, 2, focus, 1, 0, stats, timeout=9000)
            emit_and_replay(rep, bd, env, "two atoms, 3 steps (1/4 pseudo-random sample)", 3, 2, focus, 4, common.sample_seed(1), stats, seeds=False, timeout=9000)
        else:
            model_check(rep, bd, env, "two seeds (atoms or one product/quotient/square of atoms), 1 step", 1, 2, focus)
            model_check(rep, bd, env, "two atoms, 3 steps", 3, 2, focus, seeds=False)
            emit_and_replay(rep, bd, env, "two seeds, 1 step (1/%d pseudo-random sample)" % n1, 1, 2, focus, n1, common.sample_seed(), stats)
            emit_and_replay(rep, bd, env, "two atoms, 3 steps (1/%d pseudo-random sample)" % n3, 3, 2, focus, n3, common.sample_seed(1), stats, seeds=False)
        rep.count(evaluations=stats["replayed"], nontrivial=stats["replayed"], traces=stats["replayed"])
        rep.cov["replayed_by_last_op"] = stats["ops"]
        rep.cov["replayed_rejected_calls"] = stats["rejected"]
        return rep, bd, env, stats
    except Exception:
        env.close()
        raise


def unknown_part(rep, bd, env, focus, every, thorough=False):
    """The same machine over a second unit table: operands of the 'Unknown' quantity type and in the dimensionless unit next to lengths and times."""
    lib = unknown_lib(env, bd)
    stats = new_stats()
    model_check(rep, bd, env, "operands of the 'Unknown' quantity type and dimensionless operands: two seeds, 1 step", 1, 2, focus, library=lib)
    emit_and_replay(rep, bd, env, "'Unknown' / dimensionless operands, two seeds, 1 step (1/%d pseudo-random sample)" % every, 1, 2, focus, 1 if thorough else every,
                    sample_seed_u(), stats, library=lib, timeout=6000)
    rep.count(evaluations=stats["replayed"], nontrivial=stats["replayed"], traces=stats["replayed"])
    rep.cov["replayed_with_unknown_or_dimensionless_operands"] = stats["ops"]
    rep.assumptions.append("second table: %r" % (ATOMS_U,))
    return stats


def sample_seed_u():
    return common.sample_seed(3)


def finish(rep, env, rule):
    env.close()
    rep.assumptions += ["atoms: %r on the real default database; values 2, 3, 5; exponents bounded by 4" % (qtab.ATOMS,),
                        "float rounding is observed, not modelled: values are compared with the exact rational prediction at 1e-9 relative "
                        "to the magnitudes that entered the operation"]
    return rep.finish(rule=rule)
