"""Entry point: ./check <id> [--tier quick|thorough] [--replay file]"""
import argparse
import importlib
import os
import sys
import traceback

sys.path.insert(0, os.path.dirname(os.path.dirname(os.path.abspath(__file__))))
from harness import common  # noqa: E402


def main():
    ap = argparse.ArgumentParser()
    ap.add_argument("pid")
    ap.add_argument("--tier", default=os.environ.get("VERIF_TIER") or "quick", choices=["quick", "thorough"])
    ap.add_argument("--replay", default=None)
    a = ap.parse_args()
    pid = a.pid.upper()
    try:
        common.use_repo()
        mod = importlib.import_module("harness.%s" % pid.lower())
        if a.replay:
            if hasattr(mod, "replay"):
                rc = mod.replay(a.replay)
            else:
                rc = common.generic_replay(mod, pid, a.replay)
        else:
            rc = mod.main(a.tier)
    except common.MachineryError as e:
        print("MACHINERY-ERROR property=%s: %s" % (pid, e))
        sys.exit(2)
    except Exception:
        traceback.print_exc()
        print("MACHINERY-ERROR property=%s: unexpected exception in the harness" % pid)
        sys.exit(2)
    sys.exit(rc)


if __name__ == "__main__":
    main()
