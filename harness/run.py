"""Entry point: ./check <id> [--tier quick|thorough] [--replay file]"""
import argparse
import importlib
import os
import sys
import traceback

sys.path.insert(0, os.path.dirname(os.path.dirname(os.path.abspath(__file__))))
from harness import common  # noqa: E402


def main():
    ap = argparse.ArgumentParser()
    ap.add_argument("pid")
    ap.add_argument("--tier", default=os.environ.get("VERIF_TIER") or "quick", choices=["quick", "thorough"])
    ap.add_argument("--replay", default=None)
    a = ap.parse_args()
    pid = a.pid.upper()
    try:
        common.use_repo()
        mod = importlib.import_module("harness.%s" % pid.lower())
        if a.replay:
            if hasattr(mod, "replay"):
                rc = mod.replay(a.replay)
            else:
                rc = common.generic_replay(mod, pid, a.replay)
        else:
            rc = mod.main(a.tier)
    except common.MachineryError as e:
        print("MACHINERY-ERROR property=%s: %s" % (pid, e))
        sys.exit(2)
    except Exception as e:
        traceback.print_exc()
        # An exception raised INSIDE the library under test, at a step where the harness (which runs clean on a tree where the property holds)
        # does not expect one, is an observation about that tree, not a failure of the machinery: the check reports it as a violation with the
        # traceback as witness.  Anything raised by the harness itself (or by TLC handling) stays a machinery error.
        tb = traceback.extract_tb(e.__traceback__)
        src = os.path.realpath(os.environ.get("BARRIL_SRC", "/repo/src"))
        inner = tb[-1].filename if tb else ""
        if inner and os.path.realpath(inner).startswith(src + os.sep) and not isinstance(e, (MemoryError, KeyboardInterrupt)):
            step = next((f for f in reversed(tb) if "/harness/" in f.filename), None)
            rep = common.Report(pid, a.tier)
            rep.violation({"check": "the library raised where the harness does not expect it", "exception": type(e).__name__,
                           "harness_step": "%s:%s" % (os.path.basename(step.filename), step.name) if step else ""},
                          {"message": str(e)[:300], "traceback": traceback.format_exception(type(e), e, e.__traceback__)[-8:]})
            sys.exit(rep.finish(rule="the run was cut short by an exception raised inside the library under test; everything explored until then is not reported"))
        print("MACHINERY-ERROR property=%s: unexpected exception in the harness" % pid)
        sys.exit(2)
    sys.exit(rc)


if __name__ == "__main__":
    main()
