"""Shared machinery: TLC runner, evidence writer, known findings, violation reporting.

No expected value of a barril operation is ever computed here: this module only starts TLC, parses
what it printed, and does the bookkeeping required by the task interface.
"""
import json
import os
import re
import shutil
import subprocess
import sys
import time

VERIF = os.path.dirname(os.path.dirname(os.path.abspath(__file__)))
SPEC = os.path.join(VERIF, "spec")
# the three output locations can be redirected (self-tests against mutants must not overwrite evidence)
BUILD = os.environ.get("VERIF_BUILD_DIR") or os.path.join(VERIF, "build")
EVID = os.environ.get("VERIF_EVID_DIR") or os.path.join(VERIF, "evidence")
REPLAYS = os.environ.get("VERIF_REPLAY_DIR") or os.path.join(VERIF, "replays")
REPO_SRC = os.environ.get("BARRIL_SRC", "/repo/src")
TLA_JAR = "/opt/veriftools/tla/tla2tools.jar"
TLA_DEPS = "/opt/veriftools/tla/CommunityModules-deps.jar"
NCPU = min(16, os.cpu_count() or 4)


class MachineryError(Exception):
    """Something in the verification machinery itself failed (exit code 2, never a VIOLATION)."""


def use_repo():
    """Make `import barril` resolve to the working tree under test."""
    if REPO_SRC not in sys.path:
        sys.path.insert(0, REPO_SRC)
    os.environ.setdefault("BARRIL_VERIF", "1")
    import barril  # noqa

    src = os.path.realpath(os.path.dirname(barril.__file__))
    if not src.startswith(os.path.realpath(REPO_SRC)):
        raise MachineryError("barril imported from %s, expected %s" % (src, REPO_SRC))


def seed():
    return int(os.environ.get("VERIF_SEED", "0") or 0)


def sample_seed(k=0):
    """Seed of the congruential generator that samples emitted transitions (spec: EmitOffset)."""
    return (seed() * 7919 + 13 + 101 * k) % 65520


def build_dir(pid, clean=True):
    d = os.path.join(BUILD, pid)
    if clean and os.path.isdir(d):
        shutil.rmtree(d)
    os.makedirs(d, exist_ok=True)
    return d


# ------------------------------------------------------------------------------------------- TLC
_RE_STATES = re.compile(r"(\d+) states generated, (\d+) distinct states found")
_RE_DEPTH = re.compile(r"The depth of the complete state graph search is (\d+)")
_RE_COV = re.compile(r"^<(\w+) line (\d+), col (\d+) to line (\d+), col (\d+) of module (\w+)>: (\d+):(\d+)")
_RE_INV = re.compile(r"Error: (Invariant|Action property|Temporal property|Property) (\S+) (is|was) violated")


class TLCResult:
    def __init__(self):
        self.generated = 0
        self.distinct = 0
        self.depth = 0
        self.coverage = {}
        self.printed = []  # parsed PrintT values tagged <<"TAG", "json">>
        self.violated = []
        self.errors = []
        self.stdout = ""
        self.wall = 0.0
        self.cmd = ""
        self.ok = False

    def tagged(self, tag):
        return [v for t, v in self.printed if t == tag]


def _parse_printed(out, res):
    # lines of the form  <<"TAG", "json-string">>   (the json string is a TLA+ string literal)
    for m in re.finditer(r'^<<"([A-Z0-9_]+)", (".*")>>$', out, re.M):
        tag, lit = m.group(1), m.group(2)
        try:
            s = json.loads(lit)  # TLA+ string literal escapes are JSON compatible for our payloads
            res.printed.append((tag, json.loads(s)))
        except Exception:
            res.printed.append((tag, lit))


def run_tlc(module, cfg, workdir, env=None, workers=None, simulate=None, depth=None, coverage=True,
            timeout=3600, extra=None, deadlock=False, allow_violation=False, jvm=None, seed_=None, tag=None, library=None, consts=None, heap=None):
    """Run TLC on SPEC/<module>.tla with SPEC/<cfg>. Returns TLCResult.

    Raises MachineryError when TLC itself fails (parse error, crash, evaluation error, timeout)."""
    os.makedirs(workdir, exist_ok=True)
    tag = tag or os.path.basename(cfg).replace(".cfg", "")
    if consts:
        # literal constants appended to a copy of the base cfg ("K = 3", "S = \"x\"", "Ops <- OpsSum")
        gen = os.path.join(workdir, tag + ".cfg")
        with open(os.path.join(SPEC, cfg)) as f:
            base = f.read()
        if "CONSTANTS" not in base:
            base += "\nCONSTANTS\n"
        with open(gen, "w") as f:
            f.write(base.rstrip("\n") + "\n")
            for k, v in consts.items():
                if isinstance(v, str) and v.startswith("<-"):
                    f.write("  %s %s\n" % (k, v))
                else:
                    f.write("  %s = %s\n" % (k, json.dumps(v) if isinstance(v, str) else ("TRUE" if v is True else "FALSE" if v is False else v)))
        cfg = gen
    meta = os.path.join(workdir, "meta-" + tag)
    if os.path.isdir(meta):
        shutil.rmtree(meta)
    # an explicit heap: the JVM default (a quarter of the RAM per process) lets a dozen concurrent TLC processes exhaust the machine
    cmd = ["java", "-XX:+UseParallelGC", "-Xss64m", "-Xmx" + (heap or ("3g" if (workers or NCPU) <= 2 else "8g"))]
    if jvm:
        cmd += jvm
    if library:
        cmd += ["-DTLA-Library=" + library]
    cmd += ["-cp", TLA_JAR + ":" + TLA_DEPS, "tlc2.TLC", "-metadir", meta, "-noGenerateSpecTE",
            "-workers", str(workers or NCPU), "-config", cfg]
    if coverage:
        cmd += ["-coverage", "1"]
    if deadlock:
        cmd += ["-deadlock"]
    if simulate:
        cmd += ["-simulate", simulate]
        if depth:
            cmd += ["-depth", str(depth)]
    if seed_ is not None:
        cmd += ["-seed", str(seed_)]
    if extra:
        cmd += extra
    cmd += [module]
    e = dict(os.environ)
    if env:
        e.update({k: str(v) for k, v in env.items()})
    t0 = time.time()
    res = TLCResult()
    res.cmd = " ".join(cmd)
    for attempt in range(3):
        try:
            p = subprocess.run(cmd, cwd=SPEC, env=e, stdout=subprocess.PIPE, stderr=subprocess.STDOUT,
                               timeout=timeout, text=True)
        except subprocess.TimeoutExpired:
            raise MachineryError("TLC timed out after %ss: %s" % (timeout, res.cmd))
        out = p.stdout
        # TLC 1.8 occasionally fails inside its own value classes when several workers normalise a shared record
        # ("Field name .. occurs multiple times in record"): a tool race, not a verdict - the run is repeated
        if "TLC threw an unexpected exception" in out and "java.lang.RuntimeException" in out and attempt < 2:
            if os.path.isdir(meta):
                shutil.rmtree(meta)
            continue
        break
    res.wall = time.time() - t0
    res.stdout = out
    with open(os.path.join(workdir, "tlc-" + tag + ".out"), "w") as f:
        f.write(out)
    for m in _RE_STATES.finditer(out):
        res.generated, res.distinct = int(m.group(1)), int(m.group(2))
    m = _RE_DEPTH.search(out)
    if m:
        res.depth = int(m.group(1))
    for line in out.splitlines():
        m = _RE_COV.match(line)
        if m:
            res.coverage[m.group(1)] = res.coverage.get(m.group(1), 0) + int(m.group(8))
    _parse_printed(out, res)
    res.violated = [m.group(2) for m in _RE_INV.finditer(out)]
    if "Error:" in out:
        res.errors = [l for l in out.splitlines() if l.startswith("Error:")]
    finished = "Model checking completed" in out or "Finished in" in out or simulate
    real_errors = [x for x in res.errors if not _RE_INV.match(x) and "behavior up to this point" not in x.lower()
                   and "The behavior up to" not in x and "The following behavior" not in x]
    if res.violated and not allow_violation:
        pass
    if real_errors and not res.violated:
        raise MachineryError("TLC error in %s/%s: %s\n%s" % (module, cfg, real_errors[:3], out[-3000:]))
    if not finished and not res.violated:
        raise MachineryError("TLC did not finish: %s\n%s" % (res.cmd, out[-3000:]))
    res.ok = not res.violated
    return res


def tla_literal(x):
    """A Python value as a TLA+ expression (dict -> function with string domain, list -> tuple)."""
    if isinstance(x, bool):
        return "TRUE" if x else "FALSE"
    if isinstance(x, int):
        return str(x) if x >= 0 else "(%d)" % x
    if isinstance(x, str):
        return json.dumps(x)
    if isinstance(x, (list, tuple)):
        return "<<" + ", ".join(tla_literal(v) for v in x) + ">>"
    if isinstance(x, dict):
        if not x:
            return "[x \\in {} |-> 0]"
        return "(" + " @@ ".join("(%s :> %s)" % (json.dumps(k), tla_literal(v)) for k, v in x.items()) + ")"
    raise TypeError("no TLA+ literal for %r" % (x,))


def write_data_module(dirpath, name, defs):
    """Writes <dirpath>/<name>.tla defining each key of defs as a TLA+ literal (evaluated once by TLC, unlike a
    JsonDeserialize call, which TLC re-reads on every use).  Returns dirpath for run_tlc(library=...)."""
    os.makedirs(dirpath, exist_ok=True)
    with open(os.path.join(dirpath, name + ".tla"), "w") as f:
        f.write("---- MODULE %s ----\nEXTENDS TLC\n" % name)
        for k, v in defs.items():
            f.write("%s == %s\n" % (k, tla_literal(v)))
        f.write("====\n")
    return dirpath


def tlc_counterexample(out, maxlines=200):
    """The textual counterexample TLC printed (for replay files)."""
    i = out.find("Error:")
    return out[i:].splitlines()[:maxlines] if i >= 0 else []


# ------------------------------------------------------------------------------------ findings
def load_findings():
    p = os.path.join(VERIF, "KNOWN_FINDINGS.jsonl")
    items = []
    if os.path.exists(p):
        for line in open(p):
            line = line.strip()
            if line and not line.startswith("#"):
                items.append(json.loads(line))
    return items


class Report:
    """Collects violations for one property run, applies the known-findings list, writes evidence."""

    def __init__(self, pid, tier, level="model_checking"):
        self.pid = pid
        self.tier = tier
        self.level = level
        self.t0 = time.time()
        self.violations = []  # dicts with 'key' (hashable description) and details
        self.known_hits = []
        self.cov = {"states": 0, "transitions": 0, "traces_validated_against_impl": 0, "samples": [],
                    "evaluations": 0, "distinct_nontrivial": 0, "tlc_runs": [], "exhaustive": False}
        self.assumptions = []
        self.open_findings = [f for f in load_findings() if f.get("property") == pid and f.get("status") == "open"]
        self._seen = set()

    # -- counting ---------------------------------------------------------------------------
    def add_tlc(self, name, res, note=None):
        self.cov["states"] += res.distinct
        self.cov["transitions"] += res.generated
        ent = {"name": name, "distinct_states": res.distinct, "states_generated": res.generated,
               "depth": res.depth, "wall_s": round(res.wall, 2)}
        if res.coverage:
            ent["action_coverage"] = res.coverage
        if note:
            ent["note"] = note
        self.cov["tlc_runs"].append(ent)

    def count(self, evaluations=0, nontrivial=0, traces=0):
        self.cov["evaluations"] += evaluations
        self.cov["distinct_nontrivial"] += nontrivial
        self.cov["traces_validated_against_impl"] += traces

    def sample(self, s, limit=6):
        if len(self.cov["samples"]) < limit:
            self.cov["samples"].append(s)

    # -- violations -------------------------------------------------------------------------
    def violation(self, key, detail):
        """key: a dict identifying the failing input/row/history (matched against KNOWN_FINDINGS)."""
        ks = json.dumps(key, sort_keys=True)
        if ks in self._seen:
            return
        self._seen.add(ks)
        for f in self.open_findings:
            if all(key.get(k) == v for k, v in f.get("key", {}).items()) and \
               all(detail.get(k) == v for k, v in f.get("signature", {}).items()):
                self.known_hits.append((f, key, detail))
                return
        self.violations.append({"key": key, "detail": detail})

    def finish(self, rule="", explanation=None, extra=None):
        os.makedirs(EVID, exist_ok=True)
        os.makedirs(REPLAYS, exist_ok=True)
        wall = time.time() - self.t0
        printed = set()
        for f, key, detail in self.known_hits:
            tag = json.dumps(f.get("key"), sort_keys=True)
            if tag in printed:
                continue
            printed.add(tag)
            print("KNOWN-FINDING: property=%s %s" % (self.pid, f.get("what", tag)))
        # findings that are listed but were not reproduced: say so (not an error)
        for f in self.open_findings:
            tag = json.dumps(f.get("key"), sort_keys=True)
            if tag not in printed:
                print("NOTE: listed finding not reproduced in this run: property=%s %s" % (self.pid, tag))
        cov = dict(self.cov)
        cov["rule"] = rule
        if explanation:
            cov["explanation"] = explanation
        if extra:
            cov.update(extra)
        if not cov["samples"]:
            cov["samples"] = ["(no sample recorded)"]
        ev = {"property_id": self.pid, "tier": self.tier, "seed": seed(), "level": self.level,
              "coverage": cov, "assumptions": self.assumptions, "wall_s": round(wall, 2),
              "violations": len(self.violations), "known_findings_hit": len(printed)}
        with open(os.path.join(EVID, self.pid + ".json"), "w") as f:
            json.dump(ev, f, indent=1, default=str)
        if self.violations:
            path = os.path.join(REPLAYS, "%s-%s-%d.json" % (self.pid, self.tier, seed()))
            with open(path, "w") as f:
                json.dump({"property": self.pid, "tier": self.tier, "seed": seed(),
                           "violations": self.violations[:200]}, f, indent=1, default=str)
            for v in self.violations[:10]:
                print("  violation:", json.dumps(v, default=str)[:600])
            if len(self.violations) > 10:
                print("  ... %d violations in total" % len(self.violations))
            print("VIOLATION property=%s replay=%s" % (self.pid, path))
            return 1
        print("OK property=%s tier=%s states=%d transitions=%d impl_traces=%d evaluations=%d wall=%.1fs" % (
            self.pid, self.tier, cov["states"], cov["transitions"], cov["traces_validated_against_impl"],
            cov["evaluations"], wall))
        return 0


def write_json(path, obj):
    with open(path, "w") as f:
        json.dump(obj, f)
    return path


def judge_trace(rep, bd, events, name, module="MC_Judge", tag="judge", key_of=None, env=None, consts=None, library=None):
    """Writes events as ndjson, lets TLC validate them with <module>.tla, turns rejected lines into violations."""
    trace = os.path.join(bd, tag + ".ndjson")
    with open(trace, "w") as f:
        for ev in events:
            f.write(json.dumps(ev, default=str) + "\n")
    e = {"TRACE_FILE": trace}
    e.update(env or {})
    r = run_tlc(module, module + ".cfg", bd, env=e, workers=1, coverage=False, tag=tag, timeout=3000, consts=consts, library=library)
    rep.add_tlc(name + " (%d events)" % len(events), r)
    if r.distinct != len(events) + 1:
        raise MachineryError("trace not consumed: %d states for %d events (%s)" % (r.distinct, len(events), name))
    for v in r.tagged("VIOL"):
        ev = v["ev"] if "ev" in v else v
        k = key_of(ev) if key_of else {"check": ev.get("op"), "call": ev.get("call")}
        rep.violation(k, {kk: (vv if not isinstance(vv, str) else vv[:300]) for kk, vv in ev.items() if kk not in ("op",)})
    rep.count(evaluations=len(events), nontrivial=len(set(json.dumps(e, sort_keys=True, default=str) for e in events)), traces=1)
    if events:
        rep.sample(events[len(events) // 2])
    return r


def generic_replay(mod, pid, path):
    """./check <id> --replay <file>: the witness file holds tier, seed and the failing cases; the check is re-run with the same tier and
    seed against the current tree and reports whether the recorded cases fail again."""
    with open(path) as f:
        w = json.load(f)
    os.environ["VERIF_SEED"] = str(w.get("seed", 0))
    recorded = {json.dumps(v["key"], sort_keys=True) for v in w.get("violations", [])}
    print("replaying %d recorded violation(s) of %s (tier %s, seed %s)" % (len(recorded), pid, w.get("tier"), w.get("seed")))
    for v in w.get("violations", [])[:5]:
        print("  recorded:", json.dumps(v, default=str)[:500])
    rc = mod.main(w.get("tier", "quick"))
    out = os.path.join(REPLAYS, "%s-%s-%d.json" % (pid, w.get("tier", "quick"), seed()))
    again = set()
    if rc == 1 and os.path.exists(out):
        again = {json.dumps(v["key"], sort_keys=True) for v in json.load(open(out)).get("violations", [])}
    print("REPLAY property=%s recorded=%d reproduced=%d" % (pid, len(recorded), len(recorded & again)))
    return rc
