"""Shared driver for the registry machine (spec/Registry.tla): C14 and C15.

 * model check (16 workers): Well_* invariants, Atomic, Pure, cache coherence, refinement of RegistryRef
 * emission (1 worker, ACTION_CONSTRAINT Emit): every generated transition with a BFS-shortest witness
   history, replayed on a fresh UnitDatabase; outcome of every call and the complete projected state
   (registry, memo, quantity cache) are compared with TLC's prediction
 * the property's own oracles, evaluated on the code alone while replaying: a non-registration or a
   rejected registration leaves the projected registry unchanged; a query's outcome after the history
   equals its outcome on a fresh database built from the history's registrations only
"""
import json
import os
import subprocess

from . import common, regworld

FACTORS = {"m": (2, 1), "cm": (1, 100), "Mcf": (1000, 1), "s": (60, 1), "1000ft3": (3, 1), "S": (7, 1), "MCF": (9, 1)}
REGISTRATIONS = ("AddUnit", "AddUnitBase", "AddUnitBad", "AddCategory", "Clear")


def legacy_file():
    """The legacy substitution list of the running code, exported for the specification."""
    from barril.units import unit_database as _udb

    p = os.path.join(common.BUILD, "legacy.json")
    os.makedirs(common.BUILD, exist_ok=True)
    common.write_json(p, [[a, b] for a, b in _udb._LEGACY_TO_CURRENT])
    return p


def env(maxcalls, ops, pool, emit="0", invalidate="1", every=1, offset=0):
    return {"LEGACY_FILE": legacy_file(), "MAXCALLS": maxcalls, "OPS": ops, "POOL": pool, "EMIT": emit, "INVALIDATE": invalidate,
            "EVERY": every, "OFFSET": offset}


def model_check(rep, bd, name, maxcalls, ops, pool, timeout=3000):
    r = common.run_tlc("MC_Registry", "MC_Registry.cfg", bd, env=env(maxcalls, ops, pool), timeout=timeout, coverage=False,
                       tag="mc-%s-%s-%s" % (maxcalls, ops, pool))
    rep.add_tlc(name, r, note="MAXCALLS=%s OPS=%s POOL=%s" % (maxcalls, ops, pool))
    if r.violated:
        raise common.MachineryError("the specification itself violates %s (MAXCALLS=%s OPS=%s POOL=%s)\n%s" % (
            r.violated, maxcalls, ops, pool, "\n".join(common.tlc_counterexample(r.stdout, 60))))
    return r


def negative_control(rep, bd):
    r = common.run_tlc("MC_Registry", "MC_Registry.cfg", bd, env=env(3, "cache", "small", invalidate="0"), allow_violation=True, coverage=False, tag="negctl")
    if not r.violated:
        raise common.MachineryError("negative control: registrations that do not clear the caches were not detected by the model")
    rep.cov["negative_control"] = "without cache invalidation on registration TLC violates %s (as expected)" % r.violated[0]


def short(h):
    out = []
    for s in h:
        a = s["a"]
        if s["op"] == "AddCategory":
            kv = ["%s" % a["c"]] + ["%s=%s" % (k, json.dumps(a[k])) for k in ("qt", "from", "valid", "du", "dv", "min", "max") if
                                  a[k] not in (regworld.NONE, {"has": False, "v": 0}, {"has": False, "s": []}, {"v": 0, "has": False}, {"s": [], "has": False})]
            kv += [k for k in ("override", "minx", "maxx") if a[k]]
            out.append("AddCategory(%s)" % ", ".join(kv))
        else:
            out.append("%s(%s)" % (s["op"], ", ".join("%s=%s" % (k, json.dumps(v)) for k, v in sorted(a.items()) if k != "x" or s["op"] == "Convert")))
    return out


def replay_transition(t, rep, stats, fresh_oracle=True):
    """Replays one emitted transition (history + predicted outcomes + predicted post-state)."""
    h = t["h"]
    w = regworld.RegWorld(FACTORS)
    try:
        obs_last = None
        for i, step in enumerate(h):
            pre = w.reg_digest()
            obs = w.call(step["op"], step["a"])
            post = w.reg_digest()
            d = regworld.diff_outcome(step["out"], obs)
            if d:
                rep.violation({"check": "outcome", "op": step["op"], "args": step["a"], "after": short(h[:i])},
                              {"diff": d, "history": short(h[:i + 1])})
                stats["bad"] += 1
                return
            changed = pre != post
            if changed and (step["op"] not in REGISTRATIONS):
                rep.violation({"check": "query changed the registry", "op": step["op"], "args": step["a"], "after": short(h[:i])},
                              {"before": pre, "after": post})
                stats["bad"] += 1
                return
            if changed and obs["k"] != "ok":
                rep.violation({"check": "rejected registration changed the registry", "op": step["op"], "args": step["a"],
                               "after": short(h[:i])}, {"before": pre, "after": post})
                stats["bad"] += 1
                return
            obs_last = obs
        d = regworld.diff_state(t, w.project(), FACTORS)
        if d:
            rep.violation({"check": "state", "last": short(h[-1:]), "after": short(h[:-1])}, {"diff": d[:6], "history": short(h)})
            stats["bad"] += 1
            return
    finally:
        w.close()
    last = h[-1]
    if fresh_oracle and last["op"] not in REGISTRATIONS and any(s["op"] not in REGISTRATIONS or s["out"]["k"] != "ok" for s in h[:-1]):
        # the property's own oracle: same call on a fresh database built from the registrations only
        w2 = regworld.RegWorld(FACTORS)
        try:
            for s in h[:-1]:
                if s["op"] in REGISTRATIONS and s["out"]["k"] == "ok":
                    w2.call(s["op"], s["a"])
            o2 = w2.call(last["op"], last["a"])
        finally:
            w2.close()
        a, b = dict(obs_last), dict(o2)      # the exception class included: a caller's except clause sees it
        stats["fresh"] += 1
        if a != b:
            rep.violation({"check": "warm vs fresh database", "op": last["op"], "args": last["a"], "after": short(h[:-1])},
                          {"warm": a, "fresh": b})
            stats["bad"] += 1


def emit_and_replay(rep, bd, name, maxcalls, ops, pool, every=1, offset=0, stats=None, timeout=3000):
    e = env(maxcalls, ops, pool, emit="all" if every == 1 else "sample", every=every, offset=offset)
    r = common.run_tlc("MC_Registry", "MC_Registry.cfg", bd, env=e, workers=1 if every == 1 else 8, coverage=False, timeout=timeout,
                       tag="emit-%s-%s-%s-%d-%d" % (maxcalls, ops, pool, every, offset))
    rep.add_tlc(name, r, note="emission MAXCALLS=%s OPS=%s POOL=%s every=%d offset=%d" % (maxcalls, ops, pool, every, offset))
    if r.violated:
        raise common.MachineryError("the specification itself violates %s" % r.violated)
    trs = r.tagged("TR")
    if not trs:
        raise common.MachineryError("no transitions emitted (%s)" % name)
    stats = stats if stats is not None else {"bad": 0, "fresh": 0, "replayed": 0, "ops": {}}
    for t in trs:
        replay_transition(t, rep, stats)
        stats["replayed"] += 1
        op = t["h"][-1]["op"]
        stats["ops"][op] = stats["ops"].get(op, 0) + 1
    if trs:
        rep.sample({"replayed_transition": short(trs[len(trs) // 2]["h"]), "predicted_outcome": trs[len(trs) // 2]["h"][-1]["out"]})
    return stats


def emit_parallel(rep, bd, name, maxcalls, ops, pool, nproc, stats):
    """Thorough tier: nproc single-worker TLC processes explore the same instance, each printing 1/nproc of the transitions."""
    import concurrent.futures as cf

    def one(i):
        e = env(maxcalls, ops, pool, emit="part", every=nproc, offset=i)
        return common.run_tlc("MC_Registry", "MC_Registry.cfg", os.path.join(bd, "part%d" % i), env=e, workers=1, coverage=False,
                              timeout=6000, tag="part%d" % i, heap="2g")
    with cf.ThreadPoolExecutor(max_workers=min(nproc, 8)) as ex:
        results = list(ex.map(one, range(nproc)))
    total = 0
    for i, r in enumerate(results):
        if r.violated:
            raise common.MachineryError("the specification itself violates %s" % r.violated)
        trs = r.tagged("TR")
        total += len(trs)
        for t in trs:
            replay_transition(t, rep, stats)
            stats["replayed"] += 1
            op = t["h"][-1]["op"]
            stats["ops"][op] = stats["ops"].get(op, 0) + 1
        r.printed = []
    rep.add_tlc(name, results[0], note="emission in %d processes, MAXCALLS=%s OPS=%s POOL=%s, %d transitions" % (nproc, maxcalls, ops, pool, total))
    return stats
