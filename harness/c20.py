"""C20 - derived unit, category and type strings render every factor unambiguously (spec/QStr.tla, UnitGrammar.tla, MC_C20.tla)."""
import json
import os
import random
from collections import OrderedDict

from . import common, export, project as P, qalg, qtab

ATOMS20 = [("length", "m"), ("depth", "m"), ("diameter", "cm"), ("length", "cm"), ("time", "s"), ("time", "min"), ("mass", "kg"),
           ("temperature", "K"), ("temperature", "degC"), ("dynamic viscosity", "cP"), ("amount of substance", "mol(lbm)"), ("pressure", "psi")]


def derived_events(db, rng, n):
    from barril.units import Array, ObtainQuantity, Scalar

    ev = []
    for _ in range(n):
        k = rng.randrange(2, 7)
        cats = []
        ents = []
        for _i in range(k):
            c, u = rng.choice(ATOMS20)
            if c in cats:
                continue
            cats.append(c)
            ents.append((c, [u, rng.choice([-4, -3, -2, -1, -1, 1, 1, 2, 3, 4])]))
        if len(ents) < 2:
            continue
        if _ % 3 == 0:
            # the caller keeps working with the specification it handed to the validating factory (and changes it for the next request)
            from barril.units import Quantity
            spec = OrderedDict((c, list(ue)) for c, ue in ents)
            q = Quantity.CreateDerived(spec)
            first = next(iter(spec))
            spec[first][1] = spec[first][1] + (1 if spec[first][1] < 4 else -1) or 2
            Quantity.CreateDerived(spec)
        else:
            q = ObtainQuantity(OrderedDict(ents))
        s = Scalar(q, 2.5)
        a = Array(q, [1.0, 2.0])
        unit = q.GetUnit()
        ev.append({"op": "DerivedStr", "ents": [[c, u, e] for c, (u, e) in q.GetCategoryToUnitAndExps().items()], "unit": unit,
                   "cat": q.GetCategory(), "qt": q.GetQuantityType(), "name": q.GetUnitName(),
                   "repr_shows": repr(s).endswith(", %r, %r)" % (unit, q.GetCategory())) and repr(a).endswith(", %s)" % unit),
                   "str_shows": (not unit) or (str(s).endswith("[%s]" % unit) and str(a).endswith("[%s]" % unit)),
                   "reprs": [repr(s), repr(a), str(s), str(a)]})
    return ev


def simple_events(db, proj):
    from barril.units import Scalar

    ev = []
    for r in proj["rows"]:
        u = r["unit"]
        c = db.GetDefaultCategory(u)
        if not c:
            continue
        s = Scalar(1.5, u)
        ev.append({"op": "SimpleStr", "call": u, "u": u, "c": c, "qt": r["qt"], "unit": s.GetUnit(), "category": s.GetCategory(), "qtype": s.GetQuantityType(),
                   "repr_shows": repr(s) == "Scalar(1.5, %r, %r)" % (u, c), "str_shows": str(s).endswith("[%s]" % u) or u == ""})
    for cinfo in proj["cats"]:
        c = cinfo["cat"]
        s = Scalar(c, 2.5, cinfo["du"])
        ev.append({"op": "SimpleStr", "call": c, "u": cinfo["du"], "c": c, "qt": cinfo["qt"], "unit": s.GetUnit(), "category": s.GetCategory(),
                   "qtype": s.GetQuantityType(), "repr_shows": repr(s) == "Scalar(2.5, %r, %r)" % (cinfo["du"], c),
                   "str_shows": str(s).endswith("[%s]" % cinfo["du"]) or cinfo["du"] == ""})
    return ev


def main(tier):
    rep, bd, env, stats = qalg.run("C20", tier, "prod", "")
    qalg.unknown_part(rep, bd, env, "prod", 20, tier == "thorough")
    thorough = tier == "thorough"
    rng = random.Random(common.seed() + 20)
    # (1) theorem of the specified rendering + negative control
    lib20 = common.write_data_module(os.path.join(bd, "lib20"), "QTabData", {"QTab": qtab.export(env.db, ATOMS20)})
    out = os.path.join(bd, "gen.json")
    r = common.run_tlc("MC_C20", "MC_C20.cfg", bd, env={"MODE": "gen", "OUT_FILE": out, "TRACE_FILE": ""}, workers=1, coverage=False,
                       library=lib20, tag="gen")
    rep.add_tlc("round trip of the specified rendering over all entry lists (<= 3 factors, exponents -4..4)", r)
    g = json.load(open(out))
    if not g["spec_roundtrip"]:
        raise common.MachineryError("the specified rendering does not round trip")
    if g["nosep_roundtrip"]:
        raise common.MachineryError("negative control: rendering without separator was not detected")
    rep.cov["negative_control"] = "rendering without a separator between denominator factors fails the round trip, e.g. %r" % g["witness"]
    rep.count(evaluations=g["lists"], nontrivial=g["lists"])
    # (2) recorded strings of derived quantities built from entry lists, judged against the map the code reports
    ev = derived_events(env.db, rng, 6000 if thorough else 1500)
    trace = os.path.join(bd, "derived.ndjson")
    with open(trace, "w") as f:
        for e in ev:
            f.write(json.dumps(e) + "\n")
    r = common.run_tlc("MC_C20", "MC_C20.cfg", bd, env={"MODE": "judge", "OUT_FILE": out, "TRACE_FILE": trace}, workers=1, coverage=False,
                       library=lib20, tag="derived")
    rep.add_tlc("strings of %d derived quantities (up to 6 factors, repeated quantity types under different categories)" % len(ev), r)
    if r.distinct != len(ev) + 1:
        raise common.MachineryError("trace not consumed")
    for v in r.tagged("VIOL"):
        e = v["ev"]
        rep.violation({"check": "derived strings", "ents": e["ents"]}, {k: e[k] for k in ("unit", "cat", "qt", "name", "reprs")})
    rep.count(evaluations=len(ev), nontrivial=len(ev), traces=1)
    rep.sample(ev[0])
    # (3) simple quantities of the whole table
    common.judge_trace(rep, bd, simple_events(env.db, export.project_db(env.db)), "strings of the simple quantities of every unit and category")
    return qalg.finish(rep, env, rule="(1) all entry lists of the basis for the specified rendering (TLC); (2) every product/quotient/power transition "
                       "of the quantity-algebra machine replayed with the four strings and repr/str compared; (3) seeded entry lists through "
                       "ObtainQuantity judged by TLC against the composing map the code reports; (4) every unit and category of the table")
