"""C05 - dimensionally incompatible operations fail loudly and change nothing.

Model side: spec/QAlg.tla (C05_FailClosed, C13_Frozen) with every failing sum / ordering / conversion of the bounded machine
replayed (harness/qalg.py).  Real-table side: for (sampled / all) ordered pairs of different quantity types the incompatible
calls are executed on the real default database and the recorded events validated by TLC (spec/MC_Judge.tla: Reject).
"""
import json
import random

from . import common, project as P, qalg
from .c15 import digest


def cross_type_events(env, rng, thorough):
    from collections import OrderedDict
    from barril.units import Array, FractionScalar, ObtainQuantity, Quantity, Scalar

    db = env.db
    base = {qt: infos[0].unit for qt, infos in db.quantity_types.items()}
    units = {qt: [i.unit for i in infos] for qt, infos in db.quantity_types.items()}
    exempt = {"dimensionless", "Unknown"}
    qts = [q for q in base if q not in exempt]
    defcat = {}
    for qt in qts:
        defcat[qt] = db.GetDefaultCategory(base[qt])
    pairs = [(a, b) for a in qts for b in qts if a != b]
    if not thorough:
        pairs = rng.sample(pairs, 2000)
    # legacy spellings of units (target written in a legacy spelling of a unit of ANOTHER quantity type)
    from barril.units import unit_database as _udb
    legacy_of = {}
    for qt in qts:
        for u in units[qt]:
            for old, new in _udb._LEGACY_TO_CURRENT:
                if new in u and _udb.FixUnitIfIsLegacy(u.replace(new, old))[1] == u:
                    legacy_of.setdefault(qt, []).append(u.replace(new, old))
    legacy_pairs = [(a, b) for b in legacy_of for a in rng.sample(qts, 40 if thorough else 12) if a != b]
    events = []
    n = 0
    for item in pairs + [(a, b, "legacy") for a, b in legacy_pairs]:
        a, b = item[0], item[1]
        ua, ub = (base[a], base[b]) if rng.random() < 0.5 else (rng.choice(units[a]), rng.choice(units[b]))
        if len(item) == 3:
            ub = rng.choice(legacy_of[b])
        ca, cb = defcat[a], defcat[b]
        if not ca or not cb:
            continue
        ubc = _udb.FixUnitIfIsLegacy(ub)[1]          # operands are built with the current spelling
        sa, sb = Scalar(2.0, ua, ca), Scalar(3.0, ubc, cb)
        aa, ab = Array(ca, [1.0, 2.0], ua), Array(cb, [3.0, 4.0], ubc)
        fa, fb = FractionScalar(ca, value=1.5, unit=ua), FractionScalar(cb, value=2.5, unit=ubc)
        calls = [
            ("db.Convert(qt,u,v,x)", lambda: db.Convert(a, ua, ub, 1.0)),
            ("db.Convert(cat,u,v,list)", lambda: db.Convert(ca, ua, ub, [1.0, 2.0])),
            ("Scalar.GetValue(v)", lambda: sa.GetValue(ub)),
            ("Scalar.CreateCopy(unit=v)", lambda: sa.CreateCopy(unit=ub)),
            ("Scalar+Scalar", lambda: sa + sb),
            ("Scalar-Scalar", lambda: sa - sb),
            ("Scalar<Scalar", lambda: sa < sb),
            ("Scalar>=Scalar", lambda: sa >= sb),
            ("ObtainQuantity(v,cat)", lambda: ObtainQuantity(ub, ca)),
            ("Scalar(x,v,cat)", lambda: Scalar(1.0, ub, ca)),
            ("Array(cat,xs,v)", lambda: Array(ca, [1.0], ub)),
            ("Array.GetValues(v)", lambda: aa.GetValues(ub)),
            ("Array+Array", lambda: aa + ab),
            ("Array-Array", lambda: aa - ab),
            ("FractionScalar(cat,x,v)", lambda: FractionScalar(ca, value=1.0, unit=ub)),
            ("FractionScalar<FractionScalar", lambda: fa < fb),
            ("FractionScalar.GetValue(v)", lambda: fa.GetValue(ub)),
            ("Array(cat, [], u).GetValues(v): no values", lambda: Array(ca, [], ua).GetValues(ub)),
            ("Array(cat, empty ndarray, u).GetValues(v)", lambda: Array(ca, __import__("numpy").array([]), ua).GetValues(ub)),
            ("Array(cat, (), u).CreateCopy(unit=v)", lambda: Array(ca, (), ua).CreateCopy(unit=ub)),
            # a derived quantity in which a later category carries a unit of an earlier category's quantity type
            ("Quantity.CreateDerived({cat_a: [u_a, 1], cat_b: [u_a, 1]})", lambda: Quantity.CreateDerived(OrderedDict([(ca, [ua, 1]), (cb, [ua, 1])]))),
            ("Quantity.CreateDerived({cat_b: [u_b, 1], cat_a: [u_b, -2]})", lambda: Quantity.CreateDerived(OrderedDict([(cb, [ubc, 1]), (ca, [ubc, -2])]))),
            ("Quantity.CreateDerived({cat_a: [u_a, 2], cat_b: [u_a, -1]})", lambda: Quantity.CreateDerived(OrderedDict([(ca, [ua, 2]), (cb, [ua, -1])]))),
        ]
        # derived operands (a power, a product, a quotient): a target of another quantity type written with the SAME exponent, and a copy with a
        # new amount in a unit that does not belong to the derived quantity
        sq, pr, qu = sa * sa, sa * sb, sa / sb
        asq = aa * aa
        third = base[rng.choice([q_ for q_ in qts if q_ not in (a, b)])]
        calls += [
            ("(Scalar*Scalar).GetValue([(v,2)]): same exponent, unit of another type", lambda: sq.GetValue([(ubc, 2)])),
            ("db.Convert(qt,[(u,2)],[(v,2)],x)", lambda: db.Convert(a, [(ua, 2)], [(ubc, 2)], 3.0)),
            ("db.Convert(qt,[(u,-1)],[(v,-1)],x)", lambda: db.Convert(a, [(ua, -1)], [(ubc, -1)], 3.0)),
            ("Quantity(u2).Convert(x,[(v,2)])", lambda: sq.GetQuantity().Convert(3.0, [(ubc, 2)])),
            ("(Scalar*Scalar).CreateCopy(value, unit=v)", lambda: sq.CreateCopy(value=5.0, unit=ub)),
            ("(Scalar*Scalar of another type).CreateCopy(value, unit of a third type)", lambda: pr.CreateCopy(value=5.0, unit=third)),
            ("(Scalar/Scalar of another type).CreateCopy(value, unit=u)", lambda: qu.CreateCopy(value=5.0, unit=ua)),
            ("(Array*Array).CreateCopy(values, unit=v)", lambda: asq.CreateCopy(values=[5.0, 6.0], unit=ub)),
        ]
        # two value classes mixed in one sum or ordering
        from barril.units import FixedArray as _FA
        fxa = _FA(2, ca, [1.0, 2.0], ua)
        mixed = {"Array+Scalar", "Array-Scalar", "Scalar+Array", "FixedArray-Scalar", "Scalar<Array", "FractionScalar+Scalar"}
        calls += [("Array+Scalar", lambda: aa + sb), ("Array-Scalar", lambda: aa - sb), ("Scalar+Array", lambda: sa + ab), ("FixedArray-Scalar", lambda: fxa - sb),
                  ("Scalar<Array", lambda: sa < ab), ("FractionScalar+Scalar", lambda: fa + sb)]
        objs = [sa, sb, aa, ab, fa, fb, sq, pr, qu, asq, fxa]
        for name, fn in calls:
            n += 1
            full = n % 97 == 0
            pre_reg = (digest(db) if full else "") + repr(qalg.light_digest(db))
            pre_ops = json.dumps([P.value_obj(x) for x in objs], sort_keys=True)
            o = P.outcome(fn)
            post_reg = (digest(db) if full else "") + repr(qalg.light_digest(db))
            post_ops = json.dumps([P.value_obj(x) for x in objs], sort_keys=True)
            events.append({"op": "Refused" if name in mixed else "Reject", "call": name, "from": [a, ua], "to": [b, ub],
                           "family": "ok" if o[0] == "ok" else o[1], "cls": "" if o[0] == "ok" else o[2],
                           "reg_pre": pre_reg, "reg_post": post_reg, "ops_pre": pre_ops, "ops_post": post_ops})
    return events


def lookalike_events(env, rng, thorough):
    """Units of different quantity types that differ only in letter case (S / s, pA / Pa, ...), and targets written as a list of
    (unit, exponent) factors with a factor too many: all of them are incompatible and must be refused."""
    from barril.units import Array, FractionScalar, ObtainQuantity, Scalar

    db = env.db
    bylow = {}
    for u, info in db.unit_to_unit_info.items():
        bylow.setdefault(u.lower(), []).append((u, info.quantity_type))
    events = []

    def rec(name, fn, frm, to, objs=()):
        pre_reg = repr(qalg.light_digest(db))
        pre_ops = json.dumps([P.value_obj(x) for x in objs], sort_keys=True)
        o = P.outcome(fn)
        events.append({"op": "Reject", "call": name, "from": frm, "to": to, "family": "ok" if o[0] == "ok" else o[1], "cls": "" if o[0] == "ok" else o[2],
                       "reg_pre": pre_reg, "reg_post": repr(qalg.light_digest(db)), "ops_pre": pre_ops, "ops_post": json.dumps([P.value_obj(x) for x in objs], sort_keys=True)})

    for low, group in sorted(bylow.items()):
        for u1, q1 in group:
            for u2, q2 in group:
                if u1 == u2 or q1 == q2 or "Unknown" in (q1, q2) or "dimensionless" in (q1, q2):
                    continue
                c2 = db.GetDefaultCategory(u2)
                if not c2:
                    continue
                s2 = Scalar(1.0, u2, c2)
                a2 = Array(c2, [1.0, 2.0], u2)
                for name, fn in (("Scalar(x,u,cat) with a unit that differs only in case from one of the category's", lambda: Scalar(1.0, u1, c2)),
                                 ("Array(cat,xs,u) lookalike", lambda: Array(c2, [1.0], u1)), ("FractionScalar(cat,x,u) lookalike", lambda: FractionScalar(c2, value=1.5, unit=u1)),
                                 ("ObtainQuantity(u,cat) lookalike", lambda: ObtainQuantity(u1, c2)), ("Scalar.CreateCopy(value, unit) lookalike", lambda: s2.CreateCopy(value=2.0, unit=u1)),
                                 ("Scalar.GetValue(u) lookalike", lambda: s2.GetValue(u1)), ("Array.GetValues(u) lookalike", lambda: a2.GetValues(u1)),
                                 ("db.Convert(cat,u,v,x) lookalike", lambda: db.Convert(c2, u2, u1, 1.0))):
                    rec(name, fn, [q1, u1], [q2, u2], (s2, a2))
    # composed targets / sources with one factor too many (the list-of-(unit, exponent) form)
    qts = [q for q in db.quantity_types if q not in ("Unknown", "dimensionless") and db.GetDefaultCategory(db.GetBaseUnit(q))]
    for _ in range(400 if thorough else 80):
        qa, qb = rng.sample(qts, 2)
        ua, ub = rng.choice(db.GetUnits(qa)), rng.choice(db.GetUnits(qb))
        ua2 = rng.choice(db.GetUnits(qa))
        ca = db.GetDefaultCategory(ua)
        if not ca:
            continue
        s, a = Scalar(2.0, ua, ca), Array(ca, [2.0, 3.0], ua)
        sq = s * s
        for name, fn in (("db.Convert(qt,u,[(v,1),(w,1)],x): a factor too many in the target", lambda: db.Convert(qa, ua, [(ua2, 1), (ub, 1)], 2.0)),
                         ("db.Convert(qt,[(u,1),(w,1)],v,x): a factor too many in the source", lambda: db.Convert(qa, [(ua, 1), (ub, 1)], ua2, 2.0)),
                         ("Quantity.Convert(x,[(v,1),(w,1)])", lambda: ObtainQuantity(ua, ca).Convert(2.0, [(ua2, 1), (ub, 1)])),
                         ("Scalar.GetValue([(v,1),(w,1)])", lambda: s.GetValue([(ua2, 1), (ub, 1)])),
                         ("Array.GetValues([(v,1),(w,1)])", lambda: a.GetValues([(ua2, 1), (ub, 1)])),
                         ("(Scalar*Scalar).GetValue([(v,2),(w,-1)])", lambda: sq.GetValue([(ua2, 2), (ub, -1)]))):
            rec(name, fn, [qa, ua], [qb, ub], (s, a, sq))
    return events


def collision_events(rep, bd, env):
    """The rendered unit of a power of a compound unit appends the exponent to the symbol ((N/m)**2 shows 'N/m2'), which can be the symbol
    of a table unit of another quantity type (pressure).  TLC's reading of every table symbol (UnitGrammar!Parse, spec/MC_C06.tla) decides
    whether the collision is faithful ((1/m)**2 = 1/m2, m**2 = m2) or names a different dimension; in the second case conversions between
    the two must be refused."""
    import os
    from barril.units import Array, FixedArray, Scalar
    from . import export

    db = env.db
    table = os.path.join(bd, "table-collisions.json")
    export.export("default", table)
    gen_out = os.path.join(bd, "gen-collisions.json")
    r1 = common.run_tlc("MC_C06", "MC_C06.cfg", bd, env={"MODE": "gen", "TABLE_FILE": table, "OUT_FILE": gen_out, "TRACE_FILE": ""}, workers=1, tag="grammar")
    rep.add_tlc("grammar reading of every table symbol (for unit-string collisions of powers of compound units)", r1)
    parts = {}
    for g in json.load(open(gen_out)):
        ps = [(p_["atom"], p_["exp"], p_["pre"]) for p_ in g["read"]] if g["read"] and all(p_["ok"] for p_ in g["read"]) else [(g["unit"], 1, 1)]
        parts[g["unit"]] = ps

    def reading(sym, power):
        """TLC's reading of the symbol, raised to the power; an atom written with an exponent digit (m2) counts as its stem (m) to that power"""
        acc = {}
        for atom, e, pre in parts.get(sym, [(sym, 1, 1)]):
            if len(atom) >= 2 and atom[-1] in "23456789" and atom[:-1] in db.unit_to_unit_info:
                atom, e = atom[:-1], e * int(atom[-1])
            acc[(atom, pre)] = acc.get((atom, pre), 0) + e * power
        return {k: v for k, v in acc.items() if v}

    events = []
    faithful = 0
    for u, info in sorted(db.unit_to_unit_info.items()):
        if info.quantity_type in ("Unknown", "dimensionless") or not db.GetDefaultCategory(u):
            continue
        s = Scalar(1.0, u)
        d = s
        for n in (2, 3):
            d = d * s
            r = d.GetUnit()
            other = db.unit_to_unit_info.get(r)
            if other is None or other.quantity_type == d.GetQuantityType() or not db.GetDefaultCategory(r):
                continue
            if reading(u, n) == reading(r, 1):
                faithful += 1
                continue
            dd = d * 2.0
            p = Scalar(5.0, r)
            fa = FixedArray(2, [1.0, 2.0], r)
            for name, fn in (("GetValue", lambda: dd.GetValue(r)), ("FixedArray.ChangingIndex", lambda: fa.ChangingIndex(0, dd)),
                             ("Array.FromScalars", lambda: Array.FromScalars([p, dd])), ("FixedArray.IndexAsScalar", lambda: fa.IndexAsScalar(0, dd.GetQuantity()))):
                o = P.outcome(fn)
                events.append({"op": "Reject", "call": "unit-string collision: " + name, "collision": [u, n, r], "from": [d.GetQuantityType(), u], "to": [other.quantity_type, r],
                               "family": "ok" if o[0] == "ok" else o[1], "cls": "" if o[0] == "ok" else o[2], "reg_pre": "", "reg_post": "", "ops_pre": "", "ops_post": ""})
            # sums and orderings between the two are refused today and must stay so (not part of the listed finding)
            for name, fn in (("<", lambda: dd < p), (">=", lambda: p >= dd), ("+", lambda: dd + p), ("-", lambda: p - dd), ("Array +", lambda: Array(dd.GetQuantity(), [1.0]) + Array(p.GetQuantity(), [1.0]))):
                o = P.outcome(fn)
                events.append({"op": "Reject", "call": "unit-string collision, sum or ordering: " + name, "from": [d.GetQuantityType(), u], "to": [other.quantity_type, r],
                               "family": "ok" if o[0] == "ok" else o[1], "cls": "" if o[0] == "ok" else o[2], "reg_pre": "", "reg_post": "", "ops_pre": "", "ops_post": ""})
    rep.cov["unit_string_collisions"] = {"faithful (same dimension, exempt)": faithful, "naming another dimension": len({tuple(e_["collision"]) for e_ in events if "collision" in e_})}
    return events


def reused_symbol_events(rng, thorough):
    """A history of registrations: an application registers its own quantity type whose unit reuses a symbol of the table.  Either the
    registration is refused, or the two quantity types still cannot be added / subtracted / ordered."""
    from barril.units import Array, Scalar, UnitDatabase
    from . import export

    db = export.build_db("default")
    UnitDatabase.PushSingleton(db)
    events = []
    refused = 0
    try:
        syms = [(qt, i.unit) for qt, infos in db.quantity_types.items() for i in infos if qt not in ("dimensionless", "Unknown") and db.GetDefaultCategory(i.unit)]
        for k, (qt, sym) in enumerate(syms if thorough else rng.sample(syms, 40)):
            new = "verif type %d" % k
            o = P.outcome(lambda: (db.AddUnitBase(new, "verif unit", sym), db.AddCategory(new, new)))
            if o[0] != "ok":
                refused += 1
                continue
            cat = db.GetDefaultCategory(sym)
            for name, fn in (("Scalar+Scalar", lambda: Scalar(2.0, sym, cat) + Scalar(3.0, sym, new)), ("Scalar-Scalar", lambda: Scalar(3.0, sym, new) - Scalar(2.0, sym, cat)),
                             ("Array+Array", lambda: Array(cat, [1.0], sym) + Array(new, [2.0], sym)), ("Scalar<Scalar", lambda: Scalar(2.0, sym, cat) < Scalar(3.0, sym, new))):
                o2 = P.outcome(fn)
                events.append({"op": "Reject", "call": name + " after a symbol of the table was registered again for a new quantity type", "from": [qt, sym], "to": [new, sym],
                               "family": "ok" if o2[0] == "ok" else o2[1], "cls": "" if o2[0] == "ok" else o2[2], "reg_pre": "", "reg_post": "", "ops_pre": "", "ops_post": ""})
    finally:
        UnitDatabase.PopSingleton()
    return events, refused


def main(tier):
    rep, bd, env, stats = qalg.run("C05", tier, "fail", "")
    qalg.unknown_part(rep, bd, env, "fail", 12, tier == "thorough")
    rng = random.Random(common.seed() + 5)
    events = cross_type_events(env, rng, tier == "thorough")
    events += lookalike_events(env, rng, tier == "thorough")
    events += collision_events(rep, bd, env)
    more, refused = reused_symbol_events(rng, tier == "thorough")
    rep.cov["registrations_reusing_a_symbol_refused"] = refused
    events += more
    common.judge_trace(rep, bd, events, "incompatible calls across quantity types on the real default database",
                       key_of=lambda ev: ({"check": "unit-string collision", "unit": ev["collision"][0], "power": ev["collision"][1], "reads_as": ev["collision"][2]}
                                          if "collision" in ev else {"check": "cross-type " + ev["call"], "from": ev["from"][0], "to": ev["to"][0]}))
    # later valid operations behave as if the failures had not happened: the model machine is re-run after the sweep
    stats2 = qalg.new_stats()
    qalg.emit_and_replay(rep, bd, env, "valid operations after the failing sweep (two seeds, 1 step, 1/60 sample)", 1, 2, "all", 60,
                         common.sample_seed(2), stats2)
    rep.count(evaluations=stats2["replayed"], nontrivial=stats2["replayed"], traces=stats2["replayed"])
    return qalg.finish(rep, env, rule="(a) every transition of the bounded quantity-algebra machine whose last step is a sum, ordering or "
                       "conversion (rejected ones included) replayed on real Scalars; (b) incompatible calls over ordered pairs of "
                       "different quantity types of the real table (quick: 2000 seeded pairs x 39 calls, thorough: all pairs) validated by "
                       "TLC; (c) valid operations replayed after the failures")
