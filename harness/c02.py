"""C02 - all conversion routes agree and keep physical value, category and type (spec/MC_C02.tla)."""
import math
import random

from . import common, export, project as P

VALS = [0.0, 1.0, -2.5, 1234.5]


def ppt_of(got, ref, scale):
    worst = 0
    for g, r in zip(got, ref):
        if isinstance(g, bool) or not isinstance(g, (int, float)) or math.isnan(g) or math.isinf(g):
            return 2 ** 31 - 1
        d = abs(g - r) / max(scale, 1e-300)
        worst = max(worst, min(2 ** 31 - 1, int(d * 1e12)))
    return worst


def flat(x):
    import numpy

    if isinstance(x, numpy.ndarray):
        return [float(v) for v in x.tolist()]
    if isinstance(x, (list, tuple)):
        out = []
        for v in x:
            out.extend(flat(v) if isinstance(v, (list, tuple)) else [float(v)])
        return out
    return [float(x)]


def main(tier):
    import numpy
    from barril.units import Array, ChangeScalars, FixedArray, GetUnknownQuantity, ObtainQuantity, Scalar, UnitDatabase
    from barril.units.unit_system_manager import UnitSystemManager

    rep = common.Report("C02", tier)
    bd = common.build_dir("C02")
    thorough = tier == "thorough"
    rng = random.Random(common.seed() + 2)
    db = export.build_db("default")
    proj = export.project_db(db)
    UnitDatabase.PushSingleton(db)
    events = []
    try:
        units_of = {}
        for r in proj["rows"]:
            units_of.setdefault(r["qt"], []).append(r["unit"])
        cats_of = {}
        for c in proj["cats"]:
            cats_of.setdefault(c["qt"], []).append(c["cat"])
        for qt, us in units_of.items():
            if qt == "Unknown" or qt not in cats_of:
                continue
            pairs = [(a, b) for a in us for b in us if a != b]
            limit = 600 if thorough else (len(pairs) if len(us) <= 5 else 16)
            if len(pairs) > limit:
                base_pairs = [(us[0], b) for b in us[1:]] + [(b, us[0]) for b in us[1:]]
                pairs = rng.sample(base_pairs, min(len(base_pairs), limit // 2)) + rng.sample(pairs, limit // 2)
            for u, v in pairs:
                cat = rng.choice(cats_of[qt])           # any category sharing the quantity type (not only the default one)
                ref = [db.Convert(qt, u, v, x) for x in VALS]
                zero = abs(db.Convert(qt, u, v, 0.0))
                scale = max(max(abs(x) for x in ref), zero)
                s = Scalar(cat, VALS[2], u)
                conts = {"list": list(VALS), "tuple": tuple(VALS), "ndarray": numpy.array(VALS)}
                q = ObtainQuantity(u, cat)

                def ev(route, fn, kind="", src_kind="", obj=True, idx=None):
                    o = P.outcome(fn)
                    e = {"op": "Route", "route": route, "u": u, "v": v, "src_category": cat, "src_qtype": qt, "src_kind": src_kind,
                         "ok": o[0] == "ok", "ppt": 2 ** 31 - 1, "len_ok": False, "category": cat, "qtype": qt, "unit": v, "kind": src_kind}
                    if o[0] == "ok":
                        r = o[1]
                        val = r
                        if obj:
                            e.update(category=r.GetCategory(), qtype=r.GetQuantityType(), unit=r.GetUnit())
                            val = r.GetAbstractValue()
                        if src_kind:
                            e["kind"] = P.container_kind(val)
                        got = flat(val)
                        want = ref if idx is None else [ref[i] for i in idx]
                        e["len_ok"] = len(got) == len(want)
                        e["ppt"] = ppt_of(got, want, scale)
                    else:
                        e["exc"] = o[2]
                    events.append(e)

                # a history before the routes: the 'Unknown' quantity type accepts any unit (by design) - asking an unknown-quantity
                # Scalar for its value in u and v is legal, returns the value unchanged and must not influence later conversions
                unk = Scalar(ObtainQuantity("<unknown>", "Unknown"), 3.0)      # (built on the database under test)
                P.outcome(unk.GetValue, v)
                P.outcome(unk.GetValue, u)
                ev("Scalar.GetValue(v)", lambda: s.GetValue(v), obj=False, idx=[2])
                ev("Scalar.CreateCopy(unit=v)", lambda: s.CreateCopy(unit=v), idx=[2])
                # the rarely used form naming the category as well: the amount is still re-expressed in v
                ev("Scalar.CreateCopy(unit=v, category=c)", lambda: s.CreateCopy(unit=v, category=cat), idx=[2])
                holder = type("Holder", (), {})()
                holder.s = s
                ev("ChangeScalars(owner, s=(None, v))", lambda: (ChangeScalars(holder, s=(None, v)), holder.s)[1], idx=[2])
                ev("Quantity.ConvertScalarValue", lambda: q.ConvertScalarValue(VALS[2], v), obj=False, idx=[2])
                ev("Quantity.Convert(float)", lambda: q.Convert(VALS[2], v), obj=False, idx=[2])
                ev("db.Convert(cat, int)", lambda: db.Convert(cat, u, v, 1), obj=False, idx=[1])
                for kind, cont in conts.items():
                    ev("db.Convert(qt, %s)" % kind, lambda: db.Convert(qt, u, v, cont), obj=False, src_kind=kind)
                    ev("Quantity.Convert(%s)" % kind, lambda: q.Convert(cont, v), obj=False, src_kind=kind)
                    a = Array(cat, cont, u)
                    ev("Array[%s].GetValues(v)" % kind, lambda: a.GetValues(v), obj=False, src_kind=kind)
                    ev("Array[%s].CreateCopy(unit=v)" % kind, lambda: a.CreateCopy(unit=v), src_kind=kind)
                    ev("Array[%s].CreateCopy(unit=v, category=c)" % kind, lambda: a.CreateCopy(unit=v, category=cat), src_kind=kind)
                # a history: the container a conversion returned is changed by the caller, the same conversion is asked again
                # (not for a pair whose conversion is the identity - two names of one unit, 'Euc' and '-': nothing is converted and the Array hands
                # out its own container, exactly as it does for its own unit)
                for kind in (() if list(ref) == list(VALS) else ("list", "ndarray")):
                    a2 = Array(cat, {"list": list(VALS), "ndarray": numpy.array(VALS)}[kind], u)
                    r1 = a2.GetValues(v)
                    if kind == "list":
                        r1[0] = r1[0] + 12345.0
                        r1.reverse()
                    else:
                        r1 *= 3.0
                    ev("Array[%s].GetValues(v) again after the caller changed the first result" % kind, lambda: a2.GetValues(v), obj=False, src_kind=kind)
                    ev("Array[%s].CreateCopy(unit=v) after the caller changed an earlier result" % kind, lambda: a2.CreateCopy(unit=v), src_kind=kind)
                tt = [tuple(VALS[:2]), tuple(VALS[2:])]
                ev("Array[list of tuples].GetValues(v)", lambda: Array(cat, tt, u).GetValues(v), obj=False)
                ragged = [(VALS[0],), tuple(VALS[1:3]), (VALS[3], VALS[0], VALS[1])]
                o = P.outcome(lambda: Array(cat, ragged, u).GetValues(v))
                rows_ok = o[0] == "ok" and [len(r_) for r_ in o[1]] == [1, 2, 3]
                rref = [ref[0], ref[1], ref[2], ref[3], ref[0], ref[1]]
                events.append({"op": "Route", "route": "Array[rows of different lengths].GetValues(v)", "u": u, "v": v, "src_category": cat, "src_qtype": qt,
                               "src_kind": "", "ok": o[0] == "ok", "ppt": ppt_of(flat(o[1]), rref, scale) if o[0] == "ok" and len(flat(o[1])) == 6 else 2 ** 31 - 1,
                               "len_ok": rows_ok, "category": cat, "qtype": qt, "unit": v, "kind": ""})
                f = FixedArray(4, cat, list(VALS), u)
                qv = ObtainQuantity(v, cat)
                ev("FixedArray.IndexAsScalar(2, q_v)", lambda: f.IndexAsScalar(2, qv), idx=[2])
                ev("FixedArray.ChangingIndex(1, Scalar in v)", lambda: f.ChangingIndex(1, Scalar(cat, ref[1], v)), src_kind="tuple")
                ev("FixedArray.ChangingIndex(1, (x, None), use_value_unit=False) then GetValues(v)",
                   lambda: f.ChangingIndex(1, Scalar(cat, ref[1], v), use_value_unit=False).GetValues(v), obj=False)
                ev("FixedArray.ChangingIndex(1, (None, v)): keep the amount, change the unit", lambda: f.ChangingIndex(1, (None, v)), src_kind="tuple")
                h2 = type("Holder", (), {})()
                h2.first, h2.second, h2.third = Scalar(cat, VALS[1], u), Scalar(cat, VALS[2], u), Scalar(cat, VALS[3], u)
                ev("ChangeScalars(owner, first=(x, u), second=(None, v), third=(None, v)): second", lambda: (ChangeScalars(h2, first=(7.25, u), second=(None, v), third=(None, v)), h2.second)[1], idx=[2])
                ev("ChangeScalars(...): third", lambda: h2.third, idx=[3])
                # the unit-system manager
                m = UnitSystemManager()
                m.AddUnitSystem("sys", "caption", {cat: v})
                o = P.outcome(lambda: m.ConvertToCurrent(cat, u, VALS[3]))
                e = {"op": "Route", "route": "UnitSystemManager.ConvertToCurrent", "u": u, "v": v, "src_category": cat, "src_qtype": qt, "src_kind": "",
                     "ok": o[0] == "ok", "ppt": 2 ** 31 - 1, "len_ok": True, "category": cat, "qtype": qt, "unit": o[1][1] if o[0] == "ok" else "", "kind": ""}
                if o[0] == "ok":
                    e["ppt"] = ppt_of([o[1][0]], [ref[3]], scale)
                events.append(e)
                ev("UnitSystemManager.ConvertScalarToCurrent", lambda: m.ConvertScalarToCurrent(Scalar(cat, VALS[3], u)), idx=[3])
                # a history: the current system pointed at another unit w when the same amounts were converted before
                others = [x for x in us if x not in (u, v)]
                if others:
                    w_ = others[(len(events) + len(u)) % len(others)]
                    m2 = UnitSystemManager()
                    sys2 = m2.AddUnitSystem("sys", "caption", {cat: w_})
                    P.outcome(lambda: m2.ConvertToCurrent(cat, u, VALS[3]))
                    P.outcome(lambda: m2.ConvertScalarToCurrent(Scalar(cat, VALS[3], u)))
                    sys2.SetDefaultUnit(cat, v)
                    o = P.outcome(lambda: m2.ConvertToCurrent(cat, u, VALS[3]))
                    e = {"op": "Route", "route": "UnitSystemManager.ConvertToCurrent after the current system's default unit changed (was %s)" % w_, "u": u, "v": v,
                         "src_category": cat, "src_qtype": qt, "src_kind": "", "ok": o[0] == "ok", "ppt": 2 ** 31 - 1, "len_ok": True, "category": cat, "qtype": qt,
                         "unit": o[1][1] if o[0] == "ok" else "", "kind": ""}
                    if o[0] == "ok":
                        e["ppt"] = ppt_of([o[1][0]], [ref[3]], scale)
                    events.append(e)
                    ev("UnitSystemManager.ConvertScalarToCurrent after the current system's default unit changed", lambda: m2.ConvertScalarToCurrent(Scalar(cat, VALS[3], u)), idx=[3])
                # long integer numpy arrays (more than one block of any block-wise implementation), compared at a few positions
                if (len(events) + len(v)) % 4 == 0:
                    big = numpy.arange(-3000, 3000)
                    pos = [0, 1, 2999, 3000, 3001, 4095, 4096, 4097, 5999]
                    want = [db.Convert(qt, u, v, float(big[i])) for i in pos]
                    for rname, fn in (("db.Convert(qt, long int ndarray)", lambda: db.Convert(qt, u, v, big)), ("Array[long int ndarray].GetValues(v)", lambda: Array(cat, big, u).GetValues(v)),
                                      ("Array[long int ndarray].CreateCopy(unit=v)", lambda: Array(cat, big, u).CreateCopy(unit=v).GetAbstractValue())):
                        o = P.outcome(fn)
                        okk = o[0] == "ok" and len(o[1]) == len(big)
                        events.append({"op": "Route", "route": rname, "u": u, "v": v, "src_category": cat, "src_qtype": qt, "src_kind": "", "ok": okk,
                                       "ppt": ppt_of([float(o[1][i]) for i in pos], want, max(scale, max(abs(x) for x in want))) if okk else 2 ** 31 - 1,
                                       "len_ok": okk, "category": cat, "qtype": qt, "unit": v, "kind": ""})
                # the exponent form of the conversion (derived quantities with one unit), scale-only pairs
                if zero == 0.0 and ref[1] != 0.0:
                    slope = ref[1]
                    rcp = 1.0 / Scalar(cat, 2.0, u)
                    sq = Scalar(cat, 3.0, u) * Scalar(cat, 3.0, u)
                    sqn = Scalar(cat, -3.0, u) * Scalar(cat, 3.0, u)
                    for name, fn, want in (("(-Scalar*Scalar).GetValue([(v,2)]) negative amount", lambda: sqn.GetValue([(v, 2)]), -9.0 * slope * slope),
                                           ("db.Convert(qt,[(u,-2)],[(v,-2)],negative x)", lambda: db.Convert(qt, [(u, -2)], [(v, -2)], -5.0), -5.0 / (slope * slope)),
                                           ("(1/Scalar).GetValue([(v,-1)])", lambda: rcp.GetValue([(v, -1)]), 0.5 / slope),
                                           ("(Scalar*Scalar).GetValue([(v,2)])", lambda: sq.GetValue([(v, 2)]), 9.0 * slope * slope),
                                           ("db.Convert(qt,[(u,-2)],[(v,-2)],x)", lambda: db.Convert(qt, [(u, -2)], [(v, -2)], 5.0), 5.0 / (slope * slope))):
                        o = P.outcome(fn)
                        events.append({"op": "Route", "route": name, "u": u, "v": v, "src_category": cat, "src_qtype": qt, "src_kind": "", "ok": o[0] == "ok",
                                       "ppt": ppt_of([o[1]], [want], abs(want)) if o[0] == "ok" else 2 ** 31 - 1, "len_ok": True, "category": cat, "qtype": qt,
                                       "unit": v, "kind": "", "exc": o[2] if o[0] != "ok" else ""})
                ev("Scalar.GetValue(v) again, after all other routes", lambda: s.GetValue(v), obj=False, idx=[2])
                # own unit: simple and derived
                d = Scalar(cat, 3.0, u) * Scalar(cat, 2.0, u)
                da = Array(cat, [3.0, 1.5], u) * Array(cat, [2.0, 2.0], u)
                for name, fn, want in (("Scalar.GetValue(own unit)", lambda: s.GetValue(u), [VALS[2]]),
                                       ("derived Scalar.GetValue(own unit)", lambda: d.GetValue(d.GetUnit()), [6.0]),
                                       ("Array.GetValues(own unit)", lambda: Array(cat, list(VALS), u).GetValues(u), list(VALS)),
                                       ("derived Array.GetValues(own unit)", lambda: da.GetValues(da.GetUnit()), [6.0, 3.0])):
                    o = P.outcome(fn)
                    events.append({"op": "OwnUnit", "route": name, "u": u, "v": u, "ok": o[0] == "ok",
                                   "ppt": ppt_of(flat(o[1]), want, 1.0) if o[0] == "ok" and len(flat(o[1])) == len(want) else 2 ** 31 - 1})
        # a category default in a non-default unit
        for c in proj["cats"]:
            cat, qt = c["cat"], c["qt"]
            if qt == "Unknown":
                continue
            us = units_of[qt]
            for v in (us if thorough or len(us) <= 4 else rng.sample(us, 4)):
                dv, du = db.GetDefaultValue(cat), db.GetDefaultUnit(cat)
                ref = db.Convert(qt, du, v, dv)
                from barril.units import FractionScalar
                for rname, mk in (("Scalar(quantity in v)", lambda: Scalar(ObtainQuantity(v, cat))), ("Scalar.CreateWithQuantity(quantity in v)", lambda: Scalar.CreateWithQuantity(ObtainQuantity(v, cat))),
                                  ("FractionScalar(quantity in v)", lambda: FractionScalar(ObtainQuantity(v, cat))), ("FractionScalar(category, unit=v)", lambda: FractionScalar(cat, unit=v))):
                    o = P.outcome(mk)
                    events.append({"op": "Default", "route": rname, "u": du, "v": v, "src_category": cat, "ok": o[0] == "ok",
                                   "ppt": ppt_of([float(o[1].GetValue())], [ref], max(abs(ref), abs(db.Convert(qt, du, v, 0.0)))) if o[0] == "ok" else 2 ** 31 - 1,
                                   "unit": o[1].GetUnit() if o[0] == "ok" else "", "category": o[1].GetCategory() if o[0] == "ok" else ""})
                o = P.outcome(lambda: Scalar(cat, None, v))
                events.append({"op": "Default", "route": "Scalar(category, unit=v)", "u": du, "v": v, "src_category": cat, "ok": o[0] == "ok",
                               "ppt": ppt_of([o[1].GetValue()], [ref], max(abs(ref), abs(db.Convert(qt, du, v, 0.0)))) if o[0] == "ok" else 2 ** 31 - 1,
                               "unit": o[1].GetUnit() if o[0] == "ok" else "", "category": o[1].GetCategory() if o[0] == "ok" else ""})
    finally:
        UnitDatabase.PopSingleton()
    common.judge_trace(rep, bd, events, "conversion routes over unit pairs of every quantity type", module="MC_C02", tag="judge",
                       key_of=lambda e: {"check": e["op"], "route": e["route"], "u": e["u"], "v": e["v"]})
    rep.cov["exhaustive"] = False
    rep.assumptions += ["values %r; quick: all ordered pairs for quantity types with <= 5 units, else 16 seeded pairs (half through the base unit); "
                        "thorough: up to 600 pairs per type" % (VALS,), "float rounding observed: 1e-9 relative to the magnitudes that entered the conversion"]
    return rep.finish(rule="unit pairs of all quantity types x 30 public conversion routes (Scalar, Quantity, UnitDatabase on float/int/list/tuple/ndarray, "
                           "Array in every container kind incl. tuple-of-tuples, FixedArray, UnitSystemManager) compared element by element with "
                           "UnitDatabase.Convert; category / type / unit / container kind / length of the result; own-unit queries of simple and "
                           "derived objects; category defaults in non-default units - every event validated by TLC")
