"""C10 - Array results equal element-wise Scalar results for every container kind (spec/MC_C10.tla over QAlg.tla)."""
import json
import operator
import os
import random

from . import common, export, project as P, qtab

ATOMS10 = [("length", "m"), ("length", "cm"), ("depth", "km"), ("time", "s"), ("temperature", "degC"), ("temperature", "K")]
OPF = {"Add": operator.add, "Sub": operator.sub, "Mul": operator.mul, "Div": operator.truediv, "FloorDiv": operator.floordiv}
KINDS = ("list", "tuple", "ndarray")


def main(tier):
    import numpy
    from barril.units import Array, Scalar, UnitDatabase

    rep = common.Report("C10", tier)
    bd = common.build_dir("C10")
    thorough = tier == "thorough"
    rng = random.Random(common.seed() + 10)
    db = export.build_db("default")
    UnitDatabase.PushSingleton(db)
    try:
        lib = common.write_data_module(os.path.join(bd, "lib"), "QTabData", {"QTab": qtab.export(db, ATOMS10)})
        out = os.path.join(bd, "gen.json")
        r = common.run_tlc("MC_C10", "MC_C10.cfg", bd, env={"OUT_FILE": out}, workers=1, coverage=False, library=lib, tag="gen", timeout=3000)
        rep.add_tlc("element-wise prediction table: 78 x 78 operand recipes x 5 operators x 3 elements (QAlg operators)", r)
        g = json.load(open(out))
        xs = [x[0] / x[1] for x in g["xs"]]
        ys = [y[0] / y[1] for y in g["ys"]]

        import collections as _c

        class Samples(list):
            """a list subclass of the application"""

        NT = {n_: _c.namedtuple("Point%d" % n_, ["c%d" % i_ for i_ in range(n_)]) for n_ in range(1, 6)}

        def cont(vals, kind):
            if kind == "namedtuple":
                return NT[len(vals)](*vals) if len(vals) in NT else tuple(vals)
            if kind == "list subclass":
                return Samples(vals)
            return {"list": list(vals), "tuple": tuple(vals), "ndarray": numpy.array(vals, dtype=float)}[kind]

        def build(rec, vals, kind):
            a = Array(cont(vals, kind), rec["a"][1], rec["a"][0])
            if rec["op"] == "Raw":
                import collections
                from barril.units import Quantity
                return Array(Quantity.CreateDerived(collections.OrderedDict([(rec["a"][0], [rec["a"][1], 1]), (rec["b"][0], [rec["b"][1], 1])])), cont(vals, kind))
            if rec["op"]:
                b = Array(cont([1.0] * len(vals), kind), rec["b"][1], rec["b"][0])
                a = a * b if rec["op"] == "Mul" else a / b
            return a

        def ents(q):
            return [[c, u, e] for c, (u, e) in q.GetCategoryToUnitAndExps().items()]

        rows = g["rows"] if thorough else [row for row in g["rows"] if rng.random() < 0.15]
        n = 0
        nrej = 0
        for row in rows:
            combos = [(ka, kb) for ka in KINDS for kb in KINDS]
            if not thorough:
                combos = rng.sample(combos, 2)
            # values held in a subclass of tuple / list (a namedtuple of coordinates, a list type of the application): the same results
            if thorough or rng.random() < 0.25:
                combos = combos + [rng.choice([("namedtuple", "list subclass"), ("list subclass", "ndarray"), ("tuple", "namedtuple"), ("namedtuple", "namedtuple")])]
            want_q = [[e["c"], e["u"], e["e"]] for e in row["q"]]
            want_v = [v[0] / v[1] if v[1] else None for v in row["vs"]]
            key = {"r1": row["r1"], "r2": row["r2"], "op": row["op"]}
            seen = []
            for ka, kb in combos:
                A, B = build(row["r1"], xs, ka), build(row["r2"], ys, kb)
                snapA, snapB = json.dumps(P.value_obj(A)), json.dumps(P.value_obj(B))
                o = P.outcome(OPF[row["op"]], A, B)
                n += 1
                d = []
                if (o[0] == "ok") != bool(row["ok"]):
                    d.append("predicted %s observed %s" % ("ok" if row["ok"] else row["exc"], "ok" if o[0] == "ok" else "%s (%s)" % (o[1], o[2])))
                elif o[0] != "ok":
                    nrej += 1
                    if o[1] != row["exc"]:
                        d.append("exception family predicted %s observed %s (%s)" % (row["exc"], o[1], o[2]))
                else:
                    R = o[1]
                    if type(R).__name__ != "Array":
                        d.append("result class %s" % type(R).__name__)
                    elif ents(R.GetQuantity()) != want_q:
                        d.append("composing map predicted %r observed %r" % (want_q, ents(R.GetQuantity())))
                    else:
                        vals = [float(v) for v in R.GetAbstractValue()]
                        tol = [1e-9 * max(abs(w), abs(x) + abs(y), 1e-300) if w is not None else None for w, x, y in zip(want_v, xs, ys)]
                        if len(vals) != len(want_v):
                            d.append("length %d, expected %d" % (len(vals), len(want_v)))
                        else:
                            for i, (v, w) in enumerate(zip(vals, want_v)):
                                if w is None:
                                    continue
                                if row["op"] == "FloorDiv":
                                    if abs(v - w) > 1.0 + 1e-9 * abs(w):
                                        d.append("element %d predicted floor %r observed %r" % (i, w, v))
                                elif abs(v - w) > 1e-9 * max(abs(w), 1e-300) and abs(v - w) > 1e-9 * (abs(vals[i]) + abs(w)) * 0 + scale_of(row, i, xs, ys) * 1e-9:
                                    d.append("element %d predicted %r observed %r" % (i, w, v))
                        # the Scalar side, executed on the code
                        for i in range(len(xs)):
                            so = P.outcome(OPF[row["op"]], Scalar(A.GetQuantity(), list(A.GetAbstractValue())[i]), Scalar(B.GetQuantity(), list(B.GetAbstractValue())[i]))
                            if so[0] != "ok":
                                d.append("the Scalar operation on element %d raised %s" % (i, so[2]))
                            else:
                                sv = so[1].GetValue()
                                if abs(sv - vals[i]) > 1e-12 * max(abs(sv), abs(vals[i])) and abs(sv - vals[i]) > 1e-12 * scale_of(row, i, xs, ys):
                                    d.append("element %d: Array gives %r, Scalars give %r" % (i, vals[i], sv))
                                if not (so[1].GetQuantity() == R.GetQuantity()):
                                    d.append("quantity of the Array result differs from the Scalar result: %r vs %r" % (ents(R.GetQuantity()), ents(so[1].GetQuantity())))
                        seen.append((ents(R.GetQuantity()), vals))
                if json.dumps(P.value_obj(A)) != snapA or json.dumps(P.value_obj(B)) != snapB:
                    d.append("an operand changed")
                if d:
                    rep.violation(dict(key, check="array operation", containers=[ka, kb]), {"diff": d[:5]})
            if len(seen) > 1 and any(s[0] != seen[0][0] or any(abs(a - b) > 1e-12 * max(abs(a), abs(b), 1e-300) for a, b in zip(s[1], seen[0][1])) for s in seen[1:]):
                rep.violation(dict(key, check="result depends on the container kinds"), {"results": seen[:3]})
            # lengths: empty operands and mismatching lengths
            if n % 5 == 0:
                ka, kb = rng.choice(KINDS), rng.choice(KINDS)
                o = P.outcome(lambda: OPF[row["op"]](build(row["r1"], [], ka), build(row["r2"], [], kb)))
                if row["ok"]:
                    if o[0] != "ok" or len(o[1].GetAbstractValue()) != 0 or ents(o[1].GetQuantity()) != want_q:
                        rep.violation(dict(key, check="empty arrays", containers=[ka, kb]), {"observed": o[2] if o[0] != "ok" else [ents(o[1].GetQuantity()), len(o[1].GetAbstractValue())]})
                # an integer ndarray on one side, fractional amounts in a list / tuple on the other: compared with the Scalars
                ia = Array(numpy.array([2, -3, 4]), row["r1"]["a"][1], row["r1"]["a"][0])
                fb = build(row["r2"], [0.5, 0.25, 1.5], rng.choice(["list", "tuple"]))
                for X, Y in ((ia, fb), (fb, ia)):
                    o = P.outcome(OPF[row["op"]], X, Y)
                    so = [P.outcome(OPF[row["op"]], Scalar(X.GetQuantity(), float(list(X.GetAbstractValue())[i])), Scalar(Y.GetQuantity(), float(list(Y.GetAbstractValue())[i]))) for i in range(3)]
                    if (o[0] == "ok") != all(x[0] == "ok" for x in so):
                        rep.violation(dict(key, check="integer ndarray with a fractional list: accepted/rejected differently from the Scalars"), {"array": o[1:] if o[0] != "ok" else "ok"})
                    elif o[0] == "ok":
                        got = [float(v) for v in o[1].GetAbstractValue()]
                        want = [x[1].GetValue() for x in so]
                        if any(abs(a - b) > 1e-9 * max(abs(b), scale_of(row, 0, [3], [1.5])) for a, b in zip(got, want)) or not (so[0][1].GetQuantity() == o[1].GetQuantity()):
                            rep.violation(dict(key, check="integer ndarray with a fractional list"), {"array": got, "scalars": want})
                for la, lb in ((3, 2), (2, 3), (3, 1), (1, 3), (2, 0)):
                    o = P.outcome(lambda: OPF[row["op"]](build(row["r1"], xs[:la], ka), build(row["r2"], ys[:lb], kb)))
                    if o[0] == "ok":
                        rep.violation(dict(key, check="operands of different lengths accepted", containers=[ka, kb], lengths=[la, lb]),
                                      {"result_length": len(o[1].GetAbstractValue())})
        rep.count(evaluations=n, nontrivial=len(rows), traces=n)
        rep.cov["rejected_rows_replayed"] = nrej
        rep.sample({"row": rows[len(rows) // 2]})
        # FromScalars followed by indexing returns the original amounts
        m = 0
        for _ in range(2000 if thorough else 400):
            c, u = rng.choice(ATOMS10)
            same = [a for a in ATOMS10 if db.GetCategoryQuantityType(a[0]) == db.GetCategoryQuantityType(c)]
            scal = [Scalar(rng.choice(same)[0], rng.choice([0.5, 2.0, -3.0, 100.0]), rng.choice(same)[1]) for _i in range(rng.randrange(1, 5))]
            scal = [Scalar(s_.GetValue(), s_.GetUnit(), rng.choice([a[0] for a in same])) for s_ in scal]
            o = P.outcome(Array.FromScalars, scal)
            m += 1
            if o[0] != "ok":
                rep.violation({"check": "FromScalars raised", "scalars": [repr(s_) for s_ in scal]}, {"exc": o[2]})
                continue
            arr = o[1]
            for i, s_ in enumerate(scal):
                w = s_.GetValue(arr.GetUnit())
                v = list(arr.GetValues())[i]
                if abs(v - w) > 1e-12 * max(abs(w), 1e-300) + 0.0 or arr[i] != v:
                    rep.violation({"check": "FromScalars element", "scalars": [repr(x) for x in scal], "i": i}, {"array": repr(arr), "expected": w})
            if arr.GetUnit() != scal[0].GetUnit() or arr.GetCategory() != scal[0].GetCategory():
                rep.violation({"check": "FromScalars unit/category", "scalars": [repr(x) for x in scal]}, {"array": repr(arr)})
        rep.count(evaluations=m, nontrivial=m, traces=m)
        # unit conversion of an Array = the conversions of the corresponding Scalars, whatever was asked of the Array before
        # (histories: another unit first; the same unit twice with the caller changing the container it received in between)
        m = 0
        for _ in range(1500 if thorough else 300):
            c, u = rng.choice(ATOMS10)
            same = [a[1] for a in ATOMS10 if db.GetCategoryQuantityType(a[0]) == db.GetCategoryQuantityType(c)]
            vals = [rng.choice([0.5, 2.0, -3.0, 100.0, 1e-3]) for _i in range(rng.randrange(1, 5))]
            kind = rng.choice(KINDS)
            arr = Array(c, cont(vals, kind), u)
            hist = []
            for step in range(4):
                v = rng.choice(same) if step != 2 else hist[-1][0]
                how = rng.choice(["GetValues", "CreateCopy", "index"])
                want = [Scalar(c, x, u).GetValue(v) for x in vals]
                o = P.outcome(lambda: list(arr.GetValues(v)) if how == "GetValues" else list(arr.CreateCopy(unit=v).GetAbstractValue()) if how == "CreateCopy"
                              else [arr.CreateCopy(unit=v)[i] for i in range(len(vals))])
                m += 1
                hist.append((v, how))
                if o[0] != "ok" or len(o[1]) != len(want) or any(abs(a - b) > 1e-12 * max(abs(b), 1e-300) for a, b in zip(o[1], want)):
                    rep.violation({"check": "Array conversion differs from the Scalars' conversions", "category": c, "unit": u, "container": kind,
                                   "history": [list(h) for h in hist]}, {"array": o[2] if o[0] != "ok" else o[1], "scalars": want, "values": vals})
                    break
                # the caller does what it likes with the container it received
                got = arr.GetValues(v)
                if got is arr.GetAbstractValue():
                    pass        # asked in its own unit the Array hands out its own container: changing it would change the Array
                elif isinstance(got, list) and got:
                    got[0] = 777.0
                    got.reverse()
                elif isinstance(got, numpy.ndarray):
                    got *= 2.0
            if [float(x) for x in arr.GetAbstractValue()] != vals:
                rep.violation({"check": "Array conversion changed the Array's own values", "category": c, "unit": u, "container": kind}, {"values": vals, "now": list(arr.GetAbstractValue())})
        rep.count(evaluations=m, nontrivial=m, traces=m)
        # Arrays of the 'Unknown' quantity type (with and without a caption): any unit label is accepted and the amounts come back as they are,
        # in every container kind, exactly as for the Scalars
        from barril.units import ObtainQuantity
        m = 0
        for qu in (ObtainQuantity("<unknown>", "Unknown"), ObtainQuantity("<unknown>", None, "counts per litre")):
            for kind in KINDS:
                vals = [0.5, 2.0, -3.0]
                arr = Array(qu, cont(vals, kind))
                for label in ("m3", "counts/L", "degF", "<unknown>"):
                    o = P.outcome(lambda: list(arr.GetValues(label)))
                    so = [P.outcome(lambda x=x: Scalar(qu, x).GetValue(label)) for x in vals]
                    m += 1
                    if (o[0] == "ok") != all(z[0] == "ok" for z in so) or (o[0] == "ok" and [float(a) for a in o[1]] != [z[1] for z in so]):
                        rep.violation({"check": "Array of the Unknown quantity type asked for its values", "label": label, "container": kind, "caption": qu.GetUnknownCaption()},
                                      {"array": o[2] if o[0] != "ok" else o[1], "scalars": [z[1] if z[0] == "ok" else z[2] for z in so]})
        rep.count(evaluations=m, nontrivial=m, traces=m)
        # a unit an application registers with the documented formula strings (the table's own units use closures): conversions and
        # arithmetic of Arrays in every container kind against the Scalars
        m = 0
        if P.outcome(lambda: db.AddUnit("length", "verif furlong", "verif_fur", "%f / 201.168", "%f * 201.168"))[0] == "ok":
            import operator
            for kind in KINDS:
                for vals in ([], [1.0], [0.5, 2.0, -3.0]):
                    arr = Array("length", cont(vals, kind), "verif_fur")
                    other = Array("length", cont([10.0 * (i + 1) for i in range(len(vals))], kind), "m")
                    calls = [("GetValues(m)", lambda: list(arr.GetValues("m")), lambda i: Scalar("length", vals[i], "verif_fur").GetValue("m")),
                             ("CreateCopy(unit=km)", lambda: list(arr.CreateCopy(unit="km").GetAbstractValue()), lambda i: Scalar("length", vals[i], "verif_fur").GetValue("km")),
                             ("m Array converted to the registered unit", lambda: list(other.GetValues("verif_fur")), lambda i: Scalar("length", 10.0 * (i + 1), "m").GetValue("verif_fur"))]
                    for opn, opf in (("+", operator.add), ("-", operator.sub), ("*", operator.mul), ("/", operator.truediv)):
                        calls.append(("m %s registered unit" % opn, lambda opf=opf: list(opf(other, arr).GetAbstractValue()),
                                      lambda i, opf=opf: opf(Scalar("length", 10.0 * (i + 1), "m"), Scalar("length", vals[i], "verif_fur")).GetValue()))
                        calls.append(("registered unit %s m" % opn, lambda opf=opf: list(opf(arr, other).GetAbstractValue()),
                                      lambda i, opf=opf: opf(Scalar("length", vals[i], "verif_fur"), Scalar("length", 10.0 * (i + 1), "m")).GetValue()))
                    for name, fa, fs in calls:
                        o = P.outcome(fa)
                        m += 1
                        want = [fs(i) for i in range(len(vals))]
                        if o[0] != "ok" or len(o[1]) != len(want) or any(abs(float(a) - b) > 1e-12 * max(abs(b), 1e-300) for a, b in zip(o[1], want)):
                            rep.violation({"check": "Array in a unit registered with formula strings", "call": name, "container": kind, "length": len(vals)},
                                          {"array": o[2] if o[0] != "ok" else [float(x) for x in o[1]], "scalars": want})
        else:
            raise common.MachineryError("could not register the formula-string unit")
        rep.count(evaluations=m, nontrivial=m, traces=m)
    finally:
        UnitDatabase.PopSingleton()
    rep.assumptions += ["element values xs = 2, -3, 2.5 and ys = 5, 4, -1; operand recipes: atom or one product/quotient of %r" % (ATOMS10,),
                        "quick: 15 percent of the rows x 2 seeded container combinations; thorough: all rows x all 9 combinations"]
    return rep.finish(rule="every (recipe, recipe, operator) row predicted by TLC with QAlg's operators, instantiated with list / tuple / ndarray containers on "
                           "both sides: outcome family, composing map, element values; the same operation on the corresponding Scalars executed on the "
                           "code (values and quantity equal); independence of container kinds; empty and mismatching lengths; FromScalars + indexing")


def scale_of(row, i, xs, ys):
    """magnitude that entered element i (for cancelling sums): |x| + |y| scaled by the largest unit ratio of the pool (1e5: km vs cm)"""
    return (abs(xs[i]) + abs(ys[i])) * 1e5 + 300.0
