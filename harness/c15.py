"""C15 - queries are pure and caches are semantically invisible (spec/Registry.tla refines RegistryRef.tla)."""
import hashlib
import json
import os
import random

from . import common, export, project as P, regcheck, regtrace


def digest(db):
    """Cheap projection of everything the database reports: unit lists, base units, categories (valid-unit list
    *contents*, default unit/value, limits).  Conversion closures are compared by identity."""
    h = hashlib.sha1()
    for qt, infos in db.quantity_types.items():
        h.update(repr((qt, [(i.unit, i.name, i.default_category, id(i.tobase), id(i.frombase)) for i in infos])).encode())
    h.update(repr(sorted(db.unit_to_unit_info)).encode())
    for c, ci in db.categories_to_quantity_types.items():
        h.update(repr((c, ci.quantity_type, ci.valid_units, ci.default_unit, ci.default_value, ci.min_value, ci.max_value,
                       ci.is_min_exclusive, ci.is_max_exclusive, ci.caption)).encode())
    return h.hexdigest()


def read_only_ops(proj, rng, n):
    """A seeded mix of read-only / failing operations over the real table: name -> thunk(db)."""
    from barril.units import Array, ObtainQuantity, Scalar

    rows, cats = proj["rows"], proj["cats"]
    units_of = {}
    for r in rows:
        units_of.setdefault(r["qt"], []).append(r["unit"])
    ops = []
    cats_of = {}
    for c_ in cats:
        cats_of.setdefault(c_["qt"], []).append(c_["cat"])
    from collections import OrderedDict
    for _ in range(n // 25):
        # a derived quantity holding two categories of one quantity type in different units: summed (first op), then
        # requested again and projected (second op) - the answer must be the one a fresh database gives
        qt = rng.choice([q for q, cs in cats_of.items() if len(cs) >= 2 and len(units_of.get(q, [])) >= 2])
        c1, c2 = rng.sample(cats_of[qt], 2)
        u1, u2 = rng.sample(units_of[qt], 2)
        spec = lambda c1=c1, c2=c2, u1=u1, u2=u2: OrderedDict([(c1, [u1, 1]), (c2, [u2, 1])])
        ops.append(("sum with %s.%s [%s,%s]" % (u1, u2, c1, c2),
                    lambda db, spec=spec, c1=c1, u1=u1: P.value_obj(Scalar(ObtainQuantity(spec()), 1.0) + Scalar(1.0, u1, c1) * Scalar(1.0, u1, c1))))
        ops.append(("ObtainQuantity(map %s.%s [%s,%s])" % (u1, u2, c1, c2),
                    lambda db, spec=spec: [P.quantity(ObtainQuantity(spec())), ObtainQuantity(spec()).GetUnitName()]))
    for _ in range(n):
        c = rng.choice(cats)
        r = rng.choice(rows)
        u = rng.choice(units_of[c["qt"]])
        u2 = rng.choice(units_of[c["qt"]])
        k = rng.randrange(14)
        cat, unit, other = c["cat"], u, r["unit"]
        if k == 0:
            ops.append(("GetValidUnits(%s)" % cat, lambda db, cat=cat: list(db.GetValidUnits(cat))))
        elif k == 1:
            ops.append(("Scalar(%s,unit=%s).GetValidUnits()" % (cat, unit), lambda db, cat=cat, unit=unit: Scalar(cat, None, unit).GetValidUnits()))
        elif k == 2:
            ops.append(("CheckCategoryUnit(%s,%s)" % (cat, other), lambda db, cat=cat, other=other: db.CheckCategoryUnit(cat, other)))
        elif k == 3:
            ops.append(("ObtainQuantity(%s,%s)" % (other, cat), lambda db, cat=cat, other=other: P.quantity(ObtainQuantity(other, cat))))
        elif k == 4:
            ops.append(("ObtainQuantity(%s)" % other, lambda db, other=other: P.quantity(ObtainQuantity(other))))
        elif k == 5:
            ops.append(("Convert(%s,%s,%s,2.5)" % (cat, unit, u2), lambda db, cat=cat, unit=unit, u2=u2: db.Convert(cat, unit, u2, 2.5)))
        elif k == 6:
            ops.append(("Convert(%s,%s,%s,2.5)" % (cat, unit, other), lambda db, cat=cat, unit=unit, other=other: db.Convert(cat, unit, other, 2.5)))
        elif k == 7:
            ops.append(("Scalar(%s)" % cat, lambda db, cat=cat: P.value_obj(Scalar(cat))))
        elif k == 8:
            ops.append(("Scalar(1,%s)+Scalar(2,%s)" % (unit, u2), lambda db, unit=unit, u2=u2, cat=cat: P.value_obj(Scalar(1.0, unit, cat) + Scalar(2.0, u2, cat))))
        elif k == 9:
            ops.append(("Scalar(1,%s)*Scalar(2,%s)" % (unit, other), lambda db, unit=unit, other=other, cat=cat: P.value_obj(Scalar(1.0, unit, cat) * Scalar(2.0, other))))
        elif k == 10:
            ops.append(("Array([1,2],%s).GetValues(%s)" % (unit, u2), lambda db, unit=unit, u2=u2, cat=cat: list(Array(cat, [1.0, 2.0], unit).GetValues(u2))))
        elif k == 11:
            ops.append(("GetDefaultCategory(%s)" % other, lambda db, other=other: db.GetDefaultCategory(other)))
        elif k == 12:
            ops.append(("Array(%s,unit=%s).GetValidUnits()" % (cat, unit), lambda db, cat=cat, unit=unit: Array(cat, [1.0], unit).GetValidUnits()))
        else:
            ops.append(("Scalar(1,%s).IsValid/CreateCopy(unit=%s)" % (unit, u2),
                        lambda db, unit=unit, u2=u2, cat=cat: P.value_obj(Scalar(1.0, unit, cat).CreateCopy(unit=u2))))
    # a composing map that ObtainQuantity takes as it is (it validates nothing), then the validating factory asked about the same map
    from barril.units import Quantity
    for bad in (OrderedDict([("length", ["h", 2]), ("time", ["s", -1])]), OrderedDict([("time", ["m", 1]), ("mass", ["kg", 1])]),
                OrderedDict([("length", ["m", 1]), ("depth", ["s", 1])])):
        label = ".".join("%s%d[%s]" % (u, e, c) for c, (u, e) in bad.items())
        ops.append(("ObtainQuantity(map %s)" % label, lambda db, bad=bad: P.quantity(ObtainQuantity(OrderedDict((c, list(v)) for c, v in bad.items())))))
        ops.append(("Quantity.CreateDerived(map %s)" % label, lambda db, bad=bad: P.quantity(Quantity.CreateDerived(OrderedDict((c, list(v)) for c, v in bad.items())))))
        ops.append(("CheckCategoryUnit(unregistered category) twice", lambda db: [P.outcome(db.CheckCategoryUnit, "verif no such category", "m")[1:], P.outcome(db.CheckCategoryUnit, "verif no such category", "m")[1:]]))
    # derived quantities that differ only in the caption of an unknown unit: a captioned request before the plain one, and the other way round
    ops.append(("captioned derived request m/s", lambda db: P.quantity(ObtainQuantity(OrderedDict([("length", ["m", 1]), ("time", ["s", -1])]), None, "log speed"))))
    ops.append(("then plain: quantity of 10 m / 2 s", lambda db: P.quantity((Scalar(10.0, "m") / Scalar(2.0, "s")).GetQuantity())))
    ops.append(("then plain: Quantity.CreateDerived(m/s)", lambda db: P.quantity(Quantity.CreateDerived(OrderedDict([("length", ["m", 1]), ("time", ["s", -1])])))))
    ops.append(("plain derived request kg/m3", lambda db: P.quantity(ObtainQuantity(OrderedDict([("mass", ["kg", 1]), ("length", ["m", -3])])))))
    ops.append(("then captioned: ObtainQuantity(kg/m3, caption)", lambda db: P.quantity(ObtainQuantity(OrderedDict([("mass", ["kg", 1]), ("length", ["m", -3])]), None, "mud weight"))))
    ops.append(("then captioned: Quantity.CreateDerived(kg/m3, caption)", lambda db: P.quantity(Quantity.CreateDerived(OrderedDict([("mass", ["kg", 1]), ("length", ["m", -3])]), "mud weight"))))
    # the whole-table queries (no quantity type / category argument), spread through the mix
    whole = [("len(GetUnits())", lambda db: len(db.GetUnits())), ("len(GetInfos())", lambda db: len(db.GetInfos())),
             ("GetUnitNames(first type)", lambda db: list(db.GetUnitNames(list(db.GetQuantityTypes())[0]))), ("GetQuantityTypes()", lambda db: list(db.GetQuantityTypes())),
             ("len(GetUnits()) again", lambda db: len(db.GetUnits())), ("GetUnits(first type)", lambda db: list(db.GetUnits(list(db.GetQuantityTypes())[0]))),
             ("len(GetCategories())", lambda db: len(list(db.IterCategories())) if hasattr(db, "IterCategories") else 0)]
    for k_, w in enumerate(whole):
        ops.insert((k_ * 37) % max(1, len(ops)), w)
    return ops


def real_db_part(rep, bd, thorough):
    from barril.units import UnitDatabase

    rng = random.Random(common.seed() + 15)
    warm = export.build_db("default")
    proj = export.project_db(warm)
    ops = read_only_ops(proj, rng, 6000 if thorough else 1500)
    events = []
    UnitDatabase.PushSingleton(warm)
    try:
        outs = []
        for name, fn in ops:
            pre = digest(warm)
            o = P.out_proj(P.outcome(fn, warm))
            post = digest(warm)
            events.append({"op": "Pure", "call": name, "pre": pre, "post": post})
            outs.append(o)
    finally:
        UnitDatabase.PopSingleton()
    # the same operations, each as the first operation on a fresh database
    step = 1 if thorough else 5
    fresh = None
    chosen = sorted(set(range(0, len(ops), step)) | {i for i, (name_, _f) in enumerate(ops) if name_.startswith(("Quantity.CreateDerived(map", "CheckCategoryUnit(unregistered", "len(Get", "GetUnits(first", "then plain", "then captioned"))})
    for k_, i in enumerate(chosen):
        if fresh is None or k_ % 40 == 0:
            fresh = export.build_db("default")   # rebuilt regularly so that it stays (nearly) cold
        UnitDatabase.PushSingleton(fresh)
        try:
            fresh.quantities_cache.clear() if hasattr(fresh, "quantities_cache") else None
            getattr(fresh, "_category_unit_valid", {}).clear()
            o = P.out_proj(P.outcome(ops[i][1], fresh))
        finally:
            UnitDatabase.PopSingleton()
        events.append({"op": "WarmFresh", "call": ops[i][0], "warm": json.dumps(outs[i], sort_keys=True, default=str),
                       "fresh": json.dumps(o, sort_keys=True, default=str)})
    trace = os.path.join(bd, "trace-real.ndjson")
    with open(trace, "w") as f:
        for ev in events:
            f.write(json.dumps(ev) + "\n")
    r = common.run_tlc("MC_C15", "MC_C15.cfg", bd, env={"TRACE_FILE": trace}, workers=1, tag="real")
    rep.add_tlc("recorded read-only operations on the real default database (%d events)" % len(events), r)
    if r.distinct != len(events) + 1:
        raise common.MachineryError("trace not consumed: %d states for %d events" % (r.distinct, len(events)))
    for v in r.tagged("VIOL"):
        ev = v["ev"]
        if ev["op"] == "Pure":
            rep.violation({"check": "read-only operation changed the real database", "call": ev["call"].split("(")[0]}, {"call": ev["call"]})
        else:
            rep.violation({"check": "warm vs fresh real database", "call": ev["call"]}, {"warm": ev["warm"][:300], "fresh": ev["fresh"][:300]})
    rep.count(evaluations=len(events), nontrivial=len(set(e["call"] for e in events)), traces=1)
    rep.sample(events[3])
    rep.sample(events[-1])


def main(tier):
    rep = common.Report("C15", tier)
    bd = common.build_dir("C15")
    thorough = tier == "thorough"
    stats = {"bad": 0, "fresh": 0, "replayed": 0, "ops": {}}
    regcheck.negative_control(rep, bd)
    if thorough:
        regcheck.model_check(rep, bd, "all calls, depth 4: purity, cache coherence, refinement of the cache-free machine", 4, "all", "small", timeout=6000)
        regcheck.emit_and_replay(rep, bd, "all transitions to depth 2", 2, "all", "small", stats=stats)
        regcheck.emit_parallel(rep, bd, "all transitions to depth 3 (cache-relevant calls)", 3, "cache", "small", 12, stats)
    else:
        regcheck.model_check(rep, bd, "all calls, depth 3: purity, cache coherence, refinement of the cache-free machine", 3, "all", "mid")
        regcheck.emit_and_replay(rep, bd, "all transitions to depth 2", 2, "all", "small", stats=stats)
        regcheck.emit_and_replay(rep, bd, "systematic sample of depth-3 transitions (cache-relevant calls)", 3, "cache", "small", every=12,
                                 offset=common.sample_seed(), stats=stats)
    real_db_part(rep, bd, thorough)
    # direction B: deep interleavings of queries, failing calls and registrations recorded on the code and validated by TLC against
    # the cache-free reference semantics (MC_RegTrace.tla): an accepted history shows no cache was visible in it
    hist = regtrace.random_histories(random.Random(common.seed() + 150), 600 if thorough else 120, 80 if thorough else 50, queries=True)
    regtrace.validate(rep, bd, hist, "seeded deep interleavings of queries, failing calls and registrations", "deep")
    rep.cov["binding_self_test"] = regtrace.self_test(bd, hist)
    rep.count(evaluations=stats["replayed"], nontrivial=stats["replayed"], traces=stats["replayed"])
    rep.cov["replayed_by_last_op"] = stats["ops"]
    rep.cov["warm_vs_fresh_comparisons"] = stats["fresh"]
    rep.assumptions += ["the two caches are projected from UnitDatabase._category_unit_valid and .quantities_cache (named by the property's anchors)",
                        "pools: 2 quantity types, 4 units (+2 legacy spellings), 2 categories"]
    return rep.finish(rule="every transition TLC generates for the bounded registry machine is replayed on a fresh UnitDatabase and "
                           "compared (outcomes, registry, both caches); each query is also compared with the same query on a database "
                           "built from the history's registrations only; plus seeded read-only operations on the real default database")
