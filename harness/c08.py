"""C08 - comparisons are coherent: order follows physical amount, equality is total (spec/MC_C08.tla)."""
import json
import operator
import os
import random
from collections import OrderedDict

from . import common, export, project as P

OPS = (("lt", operator.lt), ("le", operator.le), ("gt", operator.gt), ("ge", operator.ge))


def main(tier):
    import numpy
    from barril.basic.fraction import Fraction, FractionValue
    from barril.curve.curve import Curve
    from barril.units import Array, FixedArray, FractionScalar, ObtainQuantity, Scalar, UnitDatabase
    from barril.units.unit_system import UnitSystem

    rep = common.Report("C08", tier)
    bd = common.build_dir("C08")
    thorough = tier == "thorough"
    rng = random.Random(common.seed() + 8)
    out = os.path.join(bd, "gen.json")
    r = common.run_tlc("MC_C08", "MC_C08.cfg", bd, env={"MODE": "gen", "OUT_FILE": out, "TRACE_FILE": ""}, workers=1, coverage=False, tag="gen")
    rep.add_tlc("order matrix of the pool (physically equal amounts in different units, two quantity types) + coherence laws", r)
    g = json.load(open(out))
    if not g["coherent"]:
        raise common.MachineryError("the predicted order matrix is not coherent")
    db = export.build_db("default")
    proj = export.project_db(db)
    UnitDatabase.PushSingleton(db)
    events = []
    n = 0
    try:
        # a history before everything else: amounts of the 'Unknown' quantity type read in every unit of the table (legal, returns the amount unchanged)
        unk0 = Scalar(ObtainQuantity("<unknown>", "Unknown"), 3.0)
        for row in proj["rows"]:
            P.outcome(unk0.GetValue, row["unit"])
        # (1) the matrix TLC predicted, for Scalars and FractionScalars
        for row in g["matrix"]:
            a, b = row["a"], row["b"]
            for cls in ("Scalar", "FractionScalar"):
                def mk(m):
                    x = m["x"][0] / m["x"][1]
                    return Scalar(x, m["u"]) if cls == "Scalar" else FractionScalar(m["qt"], value=FractionValue(int(x // 1), Fraction(int((x % 1) * 4), 4)), unit=m["u"])
                A, B = mk(a), mk(b)
                for name, op in OPS:
                    o = P.outcome(op, A, B)
                    n += 1
                    if row["typeerror"]:
                        if o[0] != "exc" or o[2] != "TypeError":
                            rep.violation({"check": "ordering across quantity types", "cls": cls, "op": name, "a": a, "b": b}, {"observed": o[1:] if o[0] == "exc" else "returned %r" % (o[1],)})
                    elif o[0] != "ok" or bool(o[1]) != row[name]:
                        rep.violation({"check": "order matrix", "cls": cls, "op": name, "a": [a["x"], a["u"]], "b": [b["x"], b["u"]]},
                                      {"predicted": row[name], "observed": o[1] if o[0] == "ok" else o[2]})
        rep.count(evaluations=n, nontrivial=len(g["matrix"]), traces=n)
        rep.sample({"matrix_row": g["matrix"][7]})
        # (2) every quantity type of the real table: unit pairs x two amounts with a clear physical order
        units_of = {}
        for row in proj["rows"]:
            units_of.setdefault(row["qt"], []).append(row["unit"])
        qts = [q for q in units_of if q != "Unknown" and db.GetDefaultCategory(units_of[q][0])]
        for qt in qts:
            us = units_of[qt]
            cat = db.GetDefaultCategory(us[0])
            pairs = [(a, b) for a in us for b in us]
            lim = 300 if thorough else 10
            if any(db.Convert(qt, x, us[0], 0.0) != 0.0 for x in us):
                lim = 400            # quantity types with offset units: every ordered pair, in sequence (history-dependent offsets)
            if len(pairs) > lim:
                pairs = rng.sample(pairs, lim)
            for u, v in pairs:
                x, y = rng.choice([0.5, 1.0, 3.0, -2.0, 250.0]), rng.choice([0.25, 1.0, 7.0, -4.0, 1000.0])
                bx, by = db.Convert(qt, u, us[0], x), db.Convert(qt, v, us[0], y)
                if abs(bx - by) <= 1e-9 * max(abs(bx), abs(by), 1e-300) and not (u == v and x == y):
                    continue                    # rounding-indeterminate ties are not generated (DESIGN 8)
                sign = 0 if (u == v and x == y) else (-1 if bx < by else 1)
                for cls in ("Scalar", "FractionScalar", "Scalar vs FractionScalar", "FractionScalar vs Scalar"):
                    A = Scalar(cat, x, u) if cls.startswith("Scalar") else FractionScalar(cat, value=x, unit=u)
                    B = Scalar(cat, y, v) if cls.endswith(" Scalar") or cls == "Scalar" else FractionScalar(cat, value=y, unit=v)
                    res = {}
                    raised = ""
                    for name, op in OPS:
                        o = P.outcome(op, A, B)
                        res[name] = bool(o[1]) if o[0] == "ok" else False
                        raised = raised or (o[2] if o[0] != "ok" else "")
                    events.append(dict(op="Order", cls=cls, call="%s %s vs %s %s" % (x, u, y, v), sign=sign, raised=raised, **res))
            # (2b) every unit against the base unit, both ways round, with amounts 3e-4 apart (close, but far beyond rounding): a row whose
            # two directions disagree makes a < b and b < a both true for amounts in between
            for u in us[1:]:
                for p_, q_ in ((us[0], u), (u, us[0])):
                    for eps in (3e-4, -3e-4):
                        x = 3.0
                        y = db.Convert(qt, p_, q_, x) * (1.0 + eps)
                        bx, by = db.Convert(qt, p_, us[0], x), db.Convert(qt, q_, us[0], y)
                        if abs(bx - by) <= 1e-5 * max(abs(bx), abs(by), 1e-300) or abs(bx - by) > 1e-3 * max(abs(bx), abs(by)):
                            continue            # (offset units: 3e-4 of the amount is not 3e-4 of the base amount)
                        sign = -1 if bx < by else 1
                        A, B = Scalar(cat, x, p_), Scalar(cat, y, q_)
                        res = {}
                        raised = ""
                        for name, op in OPS:
                            o = P.outcome(op, A, B)
                            res[name] = bool(o[1]) if o[0] == "ok" else False
                            raised = raised or (o[2] if o[0] != "ok" else "")
                        events.append(dict(op="Order", cls="Scalar", call="%r %s vs %r %s (close amounts)" % (x, p_, y, q_), sign=sign, raised=raised, **res))
            # (2c) amounts in ONE unit that differ in the last places (no conversion takes part: the order of the two doubles is the physical
            # order, exactly): a tolerance in some of the six operators makes them incoherent
            import math
            u1_ = rng.choice(us)
            for x in (1.0, -250.0, 3e-7):
                for y in (math.nextafter(x, math.inf), x * (1.0 + 5e-10), x * (1.0 - 3e-12)):
                    for X_, Y_ in ((x, y), (y, x)):
                        sign = -1 if X_ < Y_ else 1
                        for cls in ("Scalar", "FractionScalar"):
                            A = Scalar(cat, X_, u1_) if cls == "Scalar" else FractionScalar(cat, value=X_, unit=u1_)
                            B = Scalar(cat, Y_, u1_) if cls == "Scalar" else FractionScalar(cat, value=Y_, unit=u1_)
                            res = {}
                            raised = ""
                            for name, op in OPS:
                                o = P.outcome(op, A, B)
                                res[name] = bool(o[1]) if o[0] == "ok" else False
                                raised = raised or (o[2] if o[0] != "ok" else "")
                            events.append(dict(op="Order", cls=cls, call="%r %s vs %r %s (one unit, last places)" % (X_, u1_, Y_, u1_), sign=sign, raised=raised, **res))
            # across quantity types
            other = rng.choice([q for q in qts if q != qt])
            A, B = Scalar(1.0, us[0]), Scalar(1.0, units_of[other][0])
            for cls, (X, Y) in (("Scalar", (A, B)), ("FractionScalar", (FractionScalar(cat, value=1.5, unit=us[0]),
                                                                          FractionScalar(db.GetDefaultCategory(units_of[other][0]), value=2.5, unit=units_of[other][0])))):
                name, op = rng.choice(OPS)
                o = P.outcome(op, X, Y)
                events.append({"op": "OrderAcross", "cls": cls, "call": "%s %s %s" % (us[0], name, units_of[other][0]), "raised": o[2] if o[0] != "ok" else ""})
        # the same amount written with different splits into whole part and fraction
        FV = FractionValue
        for a_, b_, sign in ((FV(1, Fraction(1, 2)), FV(1.5), 0), (FV(0, Fraction(3, 2)), FV(1, Fraction(1, 2)), 0), (FV(1, Fraction(2, 4)), FV(1, Fraction(1, 2)), 0),
                             (FV(1, Fraction(1, 2)), FV(2), -1), (FV(2, Fraction(1, 4)), FV(1, Fraction(3, 4)), 1), (FV(1.25), FV(1, Fraction(1, 4)), 0),
                             (FV(-1, Fraction(1, 2)), FV(-0.5), 0)):
            for X, Y, sg, cls in ((a_, b_, sign, "FractionValue"), (b_, a_, -sign, "FractionValue"),
                                  (FractionScalar("length", value=a_, unit="m"), FractionScalar("length", value=b_, unit="m"), sign, "FractionScalar"),
                                  (FractionScalar("length", value=b_, unit="m"), FractionScalar("length", value=a_, unit="m"), -sign, "FractionScalar")):
                res = {}
                raised = ""
                for name, op in OPS:
                    o = P.outcome(op, X, Y)
                    res[name] = bool(o[1]) if o[0] == "ok" else False
                    raised = raised or (o[2] if o[0] != "ok" else "")
                events.append(dict(op="Order", cls=cls, call="%r vs %r" % (X, Y), sign=sg, raised=raised, **res))
        # ordering against the empty quantity and the 'Unknown' quantity type: different quantity types as well
        from barril.units import GetUnknownQuantity
        specials = [("empty", Scalar.CreateEmptyScalar(3.0)), ("unknown", Scalar(GetUnknownQuantity("dogs"), 2.0)),
                    ("unknown unit", Scalar(ObtainQuantity("<unknown>", "Unknown"), 2.0))]
        for qt in qts[:: (1 if thorough else 7)]:
            A = Scalar(1.0, units_of[qt][0])
            for sname, B in specials:
                for X, Y, call in ((A, B, "%s vs %s" % (units_of[qt][0], sname)), (B, A, "%s vs %s" % (sname, units_of[qt][0]))):
                    for name, op in OPS:
                        o = P.outcome(op, X, Y)
                        events.append({"op": "OrderAcross", "cls": "Scalar", "call": call + " " + name, "raised": o[2] if o[0] != "ok" else ""})
        # (3) equality between any two value objects and unrelated objects
        q1, q2 = ObtainQuantity("m", "length"), ObtainQuantity(OrderedDict([("length", ["m", 1]), ("time", ["s", -1])]))
        s1 = Scalar(1.0, "m")
        objs = [q1, q2, ObtainQuantity(OrderedDict()), ObtainQuantity("<unknown>", "Unknown", "cap"),
                ObtainQuantity("m", "length", "label"), ObtainQuantity("m", "length", "other label"), Scalar(ObtainQuantity("m", "length", "label"), 1.0),
                ObtainQuantity(OrderedDict([("length", ["m", 1]), ("time", ["s", -1])]), None, "label"),
                s1, Scalar(100.0, "cm"), Scalar(1.0, "m"), s1 * s1, Scalar.CreateEmptyScalar(1.0), Scalar(q2, 1.0),
                Array([1.0, 2.0], "m"), Array((1.0, 2.0), "m"), Array(numpy.array([1.0, 2.0]), "m"), Array(numpy.array([1.0, 2.0, 3.0]), "m"),
                Array([1.0, 2.0, 3.0], "m"), Array([1.0], "m"), Array([], "m"), Array(numpy.array([1.0]), "m"), Array([1.0, 2.0], "cm"),
                Array([1.0, 2.0], "m") * Array([1.0, 1.0], "s"), Array.CreateEmptyArray([1.0, 2.0]),
                FixedArray(2, [1.0, 2.0], "m"), FixedArray(2, (1.0, 2.0), "m"), FixedArray(3, numpy.array([1.0, 2.0, 3.0]), "m"), FixedArray(2, numpy.array([1.0, 2.0]), "m"),
                FractionScalar("length", value=FractionValue(1, Fraction(1, 2)), unit="m"), FractionScalar("length", value=1.0, unit="m"),
                FractionValue(1, Fraction(1, 2)), FractionValue(1.0), Fraction(1, 2), Fraction(2, 4), Fraction(3),
                FractionValue(0.5), FractionValue(0, Fraction(1, 2)), Fraction(3, 2), FractionValue(3), Fraction(1), 0.5, 1.5,
                Curve(Array([1.0, 2.0], "m"), Array([0.0, 1.0], "s")), Curve(Array(numpy.array([1.0, 2.0]), "m"), Array(numpy.array([0.0, 1.0]), "s")),
                Curve(Array([1.0, 2.0, 3.0], "m"), Array([0.0, 1.0, 2.0], "s")),
                UnitSystem("a", "A", {"length": "m"}), UnitSystem("a", "A", {"length": "m"}), UnitSystem("b", "B", {}),
                UnitSystem("c", "C", {"length": "m", "time": "s"}), UnitSystem("c", "C", {"time": "s", "length": "m"}),
                # the same id and caption with a part of the mapping, another unit, no mapping, another read-only flag
                UnitSystem("c", "C", {"length": "m"}), UnitSystem("c", "C", {}), UnitSystem("c", "C", {"length": "cm", "time": "s"}),
                UnitSystem("c", "C", {"length": "m", "time": "s"}, read_only=True), UnitSystem("c", "C2", {"length": "m", "time": "s"}),
                None, "m", 1, 1.0, (1.0, "m"), 0.5, 10 ** 400, -(10 ** 400), 2 ** 70]
        for i, a in enumerate(objs):
            for j, b in enumerate(objs):
                raised = ""
                vals = {}
                for key, fn in (("eq_ab", lambda: a == b), ("eq_ba", lambda: b == a), ("ne_ab", lambda: a != b), ("ne_ba", lambda: b != a)):
                    o = P.outcome(fn)
                    if o[0] == "ok" and isinstance(o[1], (bool, numpy.bool_)):
                        vals[key] = bool(o[1])
                    else:
                        vals[key] = False
                        raised = raised or (o[2] if o[0] != "ok" else "not a bool: %s" % type(o[1]).__name__)
                ha, hb = P.outcome(hash, a), P.outcome(hash, b)
                hashable = ha[0] == "ok" and hb[0] == "ok"
                events.append(dict(op="Eq", call="%s[%d] vs %s[%d]" % (type(a).__name__, i, type(b).__name__, j), raised=raised, same_object=i == j,
                                   hashable=hashable, hash_a=ha[1] if hashable else 0, hash_b=hb[1] if hashable else 0, **vals))
    finally:
        UnitDatabase.PopSingleton()
    common.judge_trace(rep, bd, events, "order over unit pairs of every quantity type; ==/!= matrix over value objects and unrelated objects", module="MC_C08",
                       tag="judge", env={"MODE": "judge", "OUT_FILE": out}, key_of=lambda e: {"check": e["op"], "call": e.get("call"), "cls": e.get("cls")})
    rep.assumptions += ["physically equal amounts in different units only where both conversions are exact (pool of MC_C08.tla); on the real table pairs "
                        "whose base amounts differ by less than 1e-9 relative are not generated (DESIGN 8)",
                        "unrelated right-hand sides: None, str, int, float, tuple (numpy arrays own ndarray == x)"]
    return rep.finish(rule="(1) 11 x 11 pool matrix predicted by TLC x 4 order operators x Scalar/FractionScalar; (2) seeded unit pairs of every quantity "
                           "type x two amounts, six operator results judged by TLC against the measured sign of the base-unit difference; ordering across "
                           "quantity types; (3) ==/!= over all ordered pairs of %d value objects / unrelated objects, judged by TLC" % 62)
