"""C04 - see spec/QAlg.tla (properties C04_*) and harness/qalg.py."""
from . import qalg


def main(tier):
    rep, bd, env, stats = qalg.run("C04", tier, "prod", "")
    return qalg.finish(rep, env, rule="every transition TLC generates for the bounded quantity-algebra machine whose last step is "
                       "a multiplication, division, floor division or power (operands built by up to two products/quotients/powers of "
                       "table units) is executed on real Scalars and compared with the prediction; distinct = distinct (pool, call) pairs")
