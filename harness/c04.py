"""C04 - products, quotients and powers: exponents add, base magnitudes multiply.

Model side: spec/QAlg.tla (properties C04_*) with every generated product / quotient / power replayed (harness/qalg.py; exponents are
bounded by 4 there).  Real-code side (direction B): a ** n for n = 1..9 is the n-fold product - the products are what the model
validates - over simple, derived and two-unit operands, recorded and validated by TLC (MC_Judge.tla: Agrees).
"""
import collections
import json

from . import common, project as P, qalg, qtab


def power_events(env):
    from barril.units import Quantity, Scalar

    ev = []
    operands = [Scalar(2.0, u, c) for c, u in qtab.ATOMS]
    operands += [Scalar(2.0, "m") * Scalar(3.0, "s"), Scalar(3.0, "km", "depth") / Scalar(2.0, "min"), 1.0 / Scalar(4.0, "cm"),
                 Scalar(Quantity.CreateDerived(collections.OrderedDict([("length", ["m", 1]), ("depth", ["cm", 1])])), 3.0),
                 Scalar(Quantity.CreateDerived(collections.OrderedDict([("depth", ["km", 2]), ("length", ["m", -1])])), 0.5)]
    for a in operands:
        prod = None
        for n in range(1, 10):
            po = P.outcome(lambda: a if prod is None else prod * a)
            if po[0] != "ok":
                ev.append({"op": "Agrees", "call": "the %d-fold product of (%r) raised %s" % (n, a, po[2]), "ok": False, "same_quantity": False, "ppt": 2 ** 31 - 1, "want": ""})
                break
            prod = po[1]
            o = P.outcome(lambda: a ** n)
            e = {"op": "Agrees", "call": "(%r) ** %d against the %d-fold product" % (a, n, n), "ok": o[0] == "ok", "same_quantity": False, "ppt": 2 ** 31 - 1,
                 "want": repr(prod)}
            if o[0] == "ok":
                e["got"] = repr(o[1])
                e["same_quantity"] = bool(o[1].GetQuantity() == prod.GetQuantity()) and json.dumps(P.quantity(o[1].GetQuantity()), sort_keys=True) == json.dumps(P.quantity(prod.GetQuantity()), sort_keys=True)
                e["ppt"] = min(2 ** 31 - 1, int(abs(o[1].GetValue() - prod.GetValue()) / max(abs(prod.GetValue()), 1e-300) * 1e12))
            ev.append(e)
    return ev


def floor_events(env):
    """a // b is the floor of a / b (the true quotient is what the model validates): negative and positive quotients that are far from a whole
    number, operands in one unit, in two units of one type and derived, as Scalars and as list / numpy Arrays."""
    import math
    import numpy
    from barril.units import Array, Scalar

    ev = []
    pairs = [(("m", "length"), ("m", "length")), (("m", "length"), ("cm", "length")), (("h", "time"), ("min", "time")), (("km", "depth"), ("m", "length")),
             (("m", "length"), ("s", "time"))]
    for (u1, c1), (u2, c2) in pairs:
        for x, y in ((-3.5, 1.25), (3.5, -1.25), (-7.25, -2.0), (7.25, 2.0), (-0.3, 4.0), (1e-3, -7.0)):
            for cls in ("Scalar", "list", "ndarray", "derived"):
                def mk(v, u, c):
                    if cls == "Scalar":
                        return Scalar(v, u, c)
                    if cls == "derived":
                        return Scalar(v, u, c) * Scalar(1.0, "kg")
                    return Array(c, [v, 2 * v] if cls == "list" else numpy.array([v, 2 * v]), u)
                a, b = mk(x, u1, c1), mk(y, u2, c2)
                d, f = P.outcome(lambda: a / b), P.outcome(lambda: a // b)
                e = {"op": "Agrees", "call": "%s: (%r %s) // (%r %s) against the floor of the quotient" % (cls, x, u1, y, u2), "ok": d[0] == "ok" and f[0] == "ok",
                     "same_quantity": False, "ppt": 2 ** 31 - 1, "want": ""}
                if e["ok"]:
                    dv = [float(z) for z in (d[1].GetAbstractValue() if cls in ("list", "ndarray") else [d[1].GetValue()])]
                    fv = [float(z) for z in (f[1].GetAbstractValue() if cls in ("list", "ndarray") else [f[1].GetValue()])]
                    e["same_quantity"] = bool(d[1].GetQuantity() == f[1].GetQuantity())
                    e["want"], e["got"] = repr([math.floor(z) for z in dv]), repr(fv)
                    far = [abs(z - round(z)) > 0.01 for z in dv]          # a quotient next to a whole number may floor either way in floats
                    e["ppt"] = 0 if len(dv) == len(fv) and all((not far_) or fz == math.floor(z) for z, fz, far_ in zip(dv, fv, far)) else 2 ** 31 - 1
                ev.append(e)
    return ev


def main(tier):
    rep, bd, env, stats = qalg.run("C04", tier, "prod", "")
    common.judge_trace(rep, bd, power_events(env), "powers 1..9 of simple, derived and two-unit operands against the n-fold product", tag="powers",
                       key_of=lambda ev: {"check": "power vs product", "call": ev["call"]})
    common.judge_trace(rep, bd, floor_events(env), "floor divisions against the floor of the true quotient (negative quotients included)", tag="floors",
                       key_of=lambda ev: {"check": "floor division", "call": ev["call"]})
    return qalg.finish(rep, env, rule="(a) every transition TLC generates for the bounded quantity-algebra machine whose last step is "
                       "a multiplication, division, floor division or power (operands built by up to two products/quotients/powers of "
                       "table units) is executed on real Scalars and compared with the prediction; distinct = distinct (pool, call) pairs; "
                       "(b) a ** n for n = 1..9 against the n-fold product, and a // b against the floor of a / b, validated by TLC")
