"""C13 - operations never mutate their operands; copies and pickles are equal (Scalar side; Array/FixedArray/FractionScalar operands
are monitored by harness/arrays.py in C10/C11/C18).  The pool of spec/QAlg.tla is append-only (C13_Frozen); the binding makes that
non-trivial: every pool member is snapshotted before and re-projected after every replayed step."""
import copy
import json
import pickle
import random

from . import common, project as P, qalg


def container_events(env, rng, thorough):
    """Operands with caller-owned containers (list / tuple / ndarray, FractionValue) through arithmetic, comparison, conversion,
    validation, formatting and copies; projection (contents included) before and after."""
    import numpy
    from barril.basic.fraction import Fraction, FractionValue
    from barril.units import Array, FixedArray, FractionScalar, GetUnknownQuantity, ObtainQuantity, Scalar

    ev = []
    units = [("length", "m"), ("length", "cm"), ("depth", "km"), ("time", "s"), ("temperature", "degC"), ("temperature", "degF"), ("temperature", "K"), ("pressure", "psig"), ("pressure", "bar")]

    def operands():
        c, u = rng.choice(units)
        c2, u2 = rng.choice([x for x in units if x[0] == c or rng.random() < 0.3])
        vals = [rng.choice([0.5, 1.0, 2.0, 3.5, -1.0]) for _ in range(3)]
        kind = rng.choice(["list", "tuple", "ndarray", "intarray"])
        cont = {"list": list(vals), "tuple": tuple(vals), "ndarray": numpy.array(vals), "intarray": numpy.array([1, 2, 3])}[kind]
        cont2 = {"list": [4.0, 5.0, 6.0], "tuple": (4.0, 5.0, 6.0), "ndarray": numpy.array([4.0, 5.0, 6.0]), "intarray": numpy.array([4, 5, 6])}[
            rng.choice(["list", "tuple", "ndarray", "intarray"])]
        return [Scalar(vals[0], u, c), Scalar(vals[1], u2, c2), Array(c, cont, u), Array(c2, cont2, u2), FixedArray(3, c, cont, u),
                FractionScalar(c, value=FractionValue(2, Fraction(1, 2)), unit=u), FractionScalar(c2, value=FractionValue(1, Fraction(3, 4)), unit=u2)], (cont, cont2)

    def proj(objs, conts):
        return json.dumps([P.value_obj(x) for x in objs] + [P.values(list(c)) for c in conts], sort_keys=True, default=str)

    from barril.units.unit_system_manager import UnitSystemManager
    usm = UnitSystemManager()
    usm.AddUnitSystem("verif", "verif", {"length": "cm", "depth": "m", "time": "min", "temperature": "degF", "pressure": "psi"})
    def track(*objs_):
        m2 = UnitSystemManager()
        m2.AddUnitSystem("one", "one", {"length": "cm", "depth": "m", "time": "min", "temperature": "degF", "pressure": "psi"})
        m2.AddUnitSystem("two", "two", {"length": "km", "depth": "ft", "time": "h", "temperature": "K", "pressure": "bar"})
        for o_ in objs_:
            P.outcome(m2.Register, o_)
        P.outcome(m2.SetCurrent, m2.GetUnitSystemById("two"))
        P.outcome(m2.UpdateObjects)
        P.outcome(m2.SetCurrent, None)

    n = 4000 if thorough else 800
    for _ in range(n):
        objs, conts = operands()
        s1, s2, a1, a2, f1, fs1, fs2 = objs
        sq, aq = s1 * s1, a1 * a1            # derived operands (exponent 2)
        sq2, aq2 = s2 * s2, a2 * a2
        # derived, empty and unknown-caption quantities
        unk = Scalar(ObtainQuantity("<unknown>", "Unknown", "Feet per Furlong"), 2.5)
        unk2 = Scalar(GetUnknownQuantity("psi per dog"), 1.5)
        emp = Scalar.CreateEmptyScalar(3.0)
        empa = Array.CreateEmptyArray([1.0, 2.0])
        # a quantity holding two categories of one quantity type in different units (only obtainable from an ordered map)
        from collections import OrderedDict
        two = ObtainQuantity(OrderedDict([("length", ["m", 1]), ("diameter", ["cm", 1])]))
        stwo, atwo = Scalar(two, 2.0), Array(two, [2.0, 3.0])
        objs = objs + [sq, aq, sq2, aq2, unk, unk2, emp, empa, stwo, atwo]
        ops = [("s+s", lambda: s1 + s2), ("s*s", lambda: s1 * s2), ("s/s", lambda: s1 / s2), ("sq+sq", lambda: sq + sq2), ("sq-sq", lambda: sq2 - sq),
               ("a+a", lambda: a1 + a2), ("a-a", lambda: a1 - a2), ("a*a", lambda: a1 * a2), ("a/a", lambda: a1 / a2), ("aq+aq", lambda: aq + aq2),
               ("aq*aq", lambda: aq * aq2), ("aq2-aq", lambda: aq2 - aq), ("a*2", lambda: a1 * 2.0), ("2-a", lambda: 2.0 - a1),
               ("a.GetValues(u)", lambda: a1.GetValues(a2.GetUnit())), ("s.GetValue(u)", lambda: s1.GetValue(s2.GetUnit())),
               ("f.ChangingIndex", lambda: f1.ChangingIndex(1, s2)), ("f.ChangingIndex(number)", lambda: f1.ChangingIndex(1, 9.5)),
               ("f.ChangingIndex(same unit)", lambda: f1.ChangingIndex(0, Scalar(7.5, f1.GetUnit(), f1.GetCategory()))), ("f.ChangingIndex(tuple)", lambda: f1.ChangingIndex(2, (8.5,))),
               ("f.ChangingIndex(keep unit)", lambda: f1.ChangingIndex(0, s1, use_value_unit=False)), ("f.IndexAsScalar", lambda: f1.IndexAsScalar(0)),
               ("s<s", lambda: s1 < s2), ("s==s", lambda: s1 == s2), ("a==a", lambda: a1 == a2), ("fs<fs", lambda: fs1 < fs2),
               ("fs.GetValue(u)", lambda: fs1.GetValue(fs2.GetUnit())), ("IsValid", lambda: [x.IsValid() for x in (s1, a1, f1, fs1)]),
               ("repr/str", lambda: [repr(x) + str(x) for x in objs]), ("a.CreateCopy(unit)", lambda: a1.CreateCopy(unit=a2.GetUnit())),
               ("fs.CreateCopy(unit)", lambda: fs1.CreateCopy(unit=fs2.GetUnit())), ("f+f", lambda: f1 + f1), ("f*s", lambda: f1 * a2),
               ("manager.ConvertScalarToCurrent(s)", lambda: usm.ConvertScalarToCurrent(s1)), ("manager.ConvertToCurrent", lambda: usm.ConvertToCurrent(s1.GetCategory(), s1.GetUnit(), s1.GetValue())),
               ("two+sq", lambda: stwo + Scalar(1.0, "m") * Scalar(3.0, "m")), ("two-sq", lambda: stwo - Scalar(1.0, "m", "length") * Scalar(3.0, "m", "diameter")),
               ("atwo+aq", lambda: atwo + Array([1.0, 1.0], "m") * Array([3.0, 3.0], "m")), ("two*s", lambda: stwo * s1), ("two+two", lambda: stwo + stwo),
               # the public validation / reading helpers called directly, with arguments of their own (another dimension, other values, another quantity)
               ("f.CheckValues(two values, 2)", lambda: f1.CheckValues([10.0, 20.0], 2)), ("f.CheckValues(three values, 4): refused", lambda: f1.CheckValues([1.0, 2.0, 3.0], 4)),
               ("f.CheckValues(values)", lambda: f1.CheckValues((7.0, 8.0, 9.0))), ("a.ValidateValues(other values, other quantity)", lambda: a1.ValidateValues([1e9, -1e9], a2.GetQuantity())),
               ("f.ValidateValues", lambda: f1.ValidateValues(numpy.array([5.0, 6.0]), s2.GetQuantity())), ("CheckValidity", lambda: [x.CheckValidity() for x in (s1, a1, f1, fs1)]),
               ("GetFormatted / suffix", lambda: [s1.GetFormatted(s2.GetUnit()) if s1.GetQuantityType() == s2.GetQuantityType() else s1.GetFormatted(), a1.GetFormattedSuffix(), f1.GetFormattedSuffix()]),
               ("s.AlmostEqual", lambda: s1.AlmostEqual(s2, 3)), ("GetValidUnits", lambda: [x.GetValidUnits() for x in (s1, a1, f1, fs1)]),
               # value objects handed to a unit-system manager for tracking (a manager of its own: selections re-express tracked objects through
               # their public interface only - a value object is never rewritten in place)
               ("manager.Register(value objects), selections, UpdateObjects", lambda: track(s1, a1, f1, fs1)),
               ("s.GetValueAndUnit / f.GetDimension", lambda: (s1.GetValueAndUnit(), f1.GetDimension())), ("s.ConvertScalarValue", lambda: s1.ConvertScalarValue(3.0, s1.GetUnit()))]
        name, fn = rng.choice(ops) if rng.random() < 0.7 else rng.choice(ops[-16:])
        pre = proj(objs, conts)
        P.outcome(fn)
        post = proj(objs, conts)
        ev.append({"op": "Operand", "call": name, "pre": pre, "post": post})
        x = rng.choice(objs + [sq, sq2, f1 * f1, stwo])
        def cold_pickle(y):
            # dumps, then a registration (which empties the database's quantity cache), then loads
            data = pickle.dumps(y)
            env.db.AddCategory("verif scratch category", "length", override=True)
            return pickle.loads(data)
        for cname, cf in (("copy", copy.copy), ("deepcopy", copy.deepcopy), ("CreateCopy", lambda y: y.CreateCopy())) + (
                (("pickle", lambda y: pickle.loads(pickle.dumps(y))), ("pickle loaded after a registration", cold_pickle)) if type(x).__name__ in ("Scalar", "FixedArray") else ()):
            o = P.outcome(cf, x)
            if o[0] == "ok":
                y = o[1]
                ev.append({"op": "CopyEq", "call": "%s(%s)" % (cname, type(x).__name__), "eq": bool(y == x), "ne": bool(y != x),
                           "desc1": json.dumps(P.value_obj(x), sort_keys=True), "desc2": json.dumps(P.value_obj(y), sort_keys=True)})
            else:
                ev.append({"op": "CopyEq", "call": "%s(%s)" % (cname, type(x).__name__), "eq": False, "ne": True, "desc1": "raised", "desc2": o[2]})
    # list / tuple Arrays that hold a NaN item (legal: validation skips NaN): copy, deepcopy, Copy() and CreateCopy() keep the items and are
    # equal to their source (a pickle makes new NaN objects, which no tuple comparison calls equal: not asked)
    nan = float("nan")
    for mk_name, mk in (("Array[list]", lambda: Array("length", [1.0, nan, 3.0], "m")), ("Array[tuple]", lambda: Array("length", (nan, 2.0), "m")),
                        ("FixedArray[list]", lambda: FixedArray(3, "length", [1.0, nan, 3.0], "m")), ("FixedArray[tuple]", lambda: FixedArray(2, "length", (nan, 2.0), "m")),
                        ("Array[list] of a derived quantity", lambda: Array("length", [nan, 2.0], "m") * Array("time", [1.0, 1.0], "s"))):
        x = mk()
        for cname, cf in (("copy", copy.copy), ("deepcopy", copy.deepcopy), ("Copy", lambda y: y.Copy()), ("CreateCopy", lambda y: y.CreateCopy())):
            o = P.outcome(cf, x)
            ok_ = o[0] == "ok"
            ev.append({"op": "CopyEq", "call": "%s(%s with a NaN item)" % (cname, mk_name), "eq": ok_ and bool(o[1] == x), "ne": (not ok_) or bool(o[1] != x),
                       "desc1": json.dumps(P.value_obj(x), sort_keys=True), "desc2": json.dumps(P.value_obj(o[1]), sort_keys=True) if ok_ else o[2]})
    return ev


def main(tier):
    rep, bd, env, stats = qalg.run("C13", tier, "all", "")
    rng = random.Random(common.seed() + 13)
    ev = container_events(env, rng, tier == "thorough")
    common.judge_trace(rep, bd, ev, "operands with caller-owned containers through every kind of operation, copies and pickles")
    return qalg.finish(rep, env, rule="(a) every sampled transition of the quantity-algebra machine replayed with operand snapshots; (b) seeded "
                       "operations over Scalar / Array (list, tuple, float and integer ndarray) / FixedArray / FractionScalar operands, simple and "
                       "derived, with the projection of every operand and of the caller's containers compared around the call, validated by TLC")
