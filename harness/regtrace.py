"""Direction B for the unit database: recorded executions validated by TLC against the cache-free reference semantics
(spec/MC_RegTrace.tla over RegOps!Effect): the registration history of the shipped POSC database, and seeded deep histories of
registrations, queries and failing calls over the small pools of Registry.tla."""
import os
import random

from . import common, project as P, regworld
from .c18 import d9

NONE = regworld.NONE


def out_event(o):
    return {"k": o["k"], "s": list(o["s"]), "t": o["t"], "b": bool(o["b"]), "has_x": o["k"] == "ok" and isinstance(o["x"], float) and o["x"] != 0.0 or False,
            "x": d9(float(o["x"])) if o["k"] == "ok" else d9(0.0)}


def state_event(w):
    p = w.project()
    return {"order": [[qt, us] for qt, us in p["order"].items()],
            "units": [[u, d["qt"], bool(d["ident"]), d["dc"]] for u, d in p["units"].items()],
            "cats": [[c, d["qt"], d["valid"]["has"], d["valid"]["s"], d["du"], int(d["dv"]), d["min"]["has"], int(d["min"]["v"]), d["max"]["has"],
                      int(d["max"]["v"]), d["minx"], d["maxx"]] for c, d in p["cats"].items()]}


def catargs(c, qt=NONE, valid=None, override=False, du=NONE, dv=None, mn=None, mx=None, minx=False, maxx=False, frm=NONE):
    num = lambda v: {"has": v is not None, "v": int(v) if v is not None else 0}
    return {"c": c, "qt": qt, "valid": {"has": valid is not None, "s": list(valid or [])}, "override": override, "du": du, "dv": num(dv),
            "min": num(mn), "max": num(mx), "minx": minx, "maxx": maxx, "from": frm}


def random_histories(rng, nhist, depth, queries=True):
    qts, units, cats = ["L", "T"], ["m", "cm", "Mcf", "s"], ["L", "dep"]
    spell = units + ["1000ft3", "k(ft3)"]
    events = []
    for tid in range(nhist):
        w = regworld.RegWorld(regcheck_factors())
        try:
            for _ in range(depth):
                p = rng.random()
                if p < 0.18:
                    op, a = "AddUnitBase", {"qt": rng.choice(qts), "u": rng.choice(units)}
                elif p < 0.36:
                    op, a = "AddUnit", {"qt": rng.choice(qts), "u": rng.choice(units), "dc": rng.choice([NONE, NONE, "dep", "L"])}
                elif p < 0.62:
                    a = catargs(rng.choice(cats), qt=rng.choice(qts + [NONE]), override=rng.random() < 0.5, frm=rng.choice([NONE, NONE, NONE] + cats))
                    if rng.random() < 0.4:
                        a["valid"] = {"has": True, "s": rng.choice([[], ["cm"], ["1000ft3", "m"], ["s"], ["s"], ["m"], ["Mcf", "cm"], ["k(ft3)"], ["s", "cm"]])}
                    if rng.random() < 0.3:
                        a["du"] = rng.choice(["cm", "1000ft3", "s", "m", "Mcf"])
                    if rng.random() < 0.3:
                        a["dv"] = {"has": True, "v": rng.choice([1, 2])}
                    if rng.random() < 0.25:
                        a["min"] = {"has": True, "v": rng.choice([0, 2])}
                    if rng.random() < 0.25:
                        a["max"] = {"has": True, "v": rng.choice([0, 1, 3])}
                    a["minx"], a["maxx"] = rng.random() < 0.12, rng.random() < 0.12
                    op = "AddCategory"
                elif p < 0.64:
                    op, a = "Clear", {"x": 0}
                elif not queries:
                    op, a = "GetUnits", {"qt": rng.choice(qts)}
                else:
                    op = rng.choice(["CheckCategoryUnit", "CheckCategoryUnit", "Obtain", "Obtain", "Scalar", "Scalar", "ObjGetValidUnits", "GetValidUnits",
                                     "GetDefaultUnit", "GetBaseUnit", "GetUnits", "GetQuantityType", "GetDefaultCategory", "Convert", "CheckQuantityTypeUnit"])
                    if op == "CheckCategoryUnit":
                        a = {"c": rng.choice(cats), "u": rng.choice(spell)}
                    elif op == "Obtain":
                        a = {"u": rng.choice(spell), "c": rng.choice(cats + [NONE])}
                    elif op == "Scalar":
                        f = rng.choice(["C", "CU", "U"])
                        a = {"c": rng.choice(cats) if f != "U" else NONE, "u": rng.choice(spell) if f != "C" else NONE, "form": f}
                    elif op == "ObjGetValidUnits":
                        a = {"c": rng.choice(cats), "u": rng.choice(units)}
                    elif op in ("GetValidUnits", "GetDefaultUnit"):
                        a = {"c": rng.choice(cats)}
                    elif op in ("GetBaseUnit", "GetUnits"):
                        a = {"qt": rng.choice(qts)}
                    elif op in ("GetQuantityType", "GetDefaultCategory"):
                        a = {"u": rng.choice(spell)}
                    elif op == "Convert":
                        a = {"q": rng.choice(qts + cats), "u": rng.choice(spell), "v": rng.choice(units), "x": rng.choice([[1, 1], [-2, 1], [5, 2]])}
                    else:
                        a = {"qt": rng.choice(qts), "u": rng.choice(spell)}
                o = w.call(op, a)
                events.append({"tid": tid, "op": op, "a": a, "out": out_event(o), "has_state": True, "state": state_event(w)})
        finally:
            w.close()
    return events


def inspected_histories(rng, nhist, nreg):
    """Step-by-step inspection: after every registration call (accepted or refused) the same battery of lookups and value constructions
    is run for every unit spelling and category, so that whatever a lookup memorises is confronted with every later registration."""
    qts, units, cats = ["L", "T"], ["m", "cm", "Mcf", "s"], ["L", "dep"]
    spell = units + ["1000ft3"]
    events = []
    for tid in range(nhist):
        if tid % 3 == 2:
            units = ["m", "cm", "Mcf", "s", "1000ft3"]       # the application registers a symbol that is itself a legacy spelling
        elif tid % 3 == 1:
            units = ["m", "cm", "Mcf", "s", "S", "MCF"]      # symbols that differ only in letter case (FindUnitCase)
        else:
            units = ["m", "cm", "Mcf", "s"]
        w = regworld.RegWorld(regcheck_factors())
        try:
            def do(op, a):
                o = w.call(op, a)
                events.append({"tid": tid, "op": op, "a": a, "out": out_event(o), "has_state": op in ("AddUnit", "AddUnitBase", "AddCategory", "Clear"), "state": state_event(w)
                               if op in ("AddUnit", "AddUnitBase", "AddCategory", "Clear") else {"order": [], "units": [], "cats": []}})
            for _ in range(nreg):
                p = rng.random()
                if p < 0.25:
                    do("AddUnitBase", {"qt": rng.choice(qts), "u": rng.choice(units)})
                elif p < 0.5:
                    do("AddUnit", {"qt": rng.choice(qts), "u": rng.choice(units), "dc": rng.choice([NONE, NONE, "dep", "L"])})
                elif p < 0.97:
                    a = catargs(rng.choice(cats), qt=rng.choice(qts + [NONE]), override=rng.random() < 0.5, frm=rng.choice([NONE, NONE, NONE] + cats))
                    if rng.random() < 0.3:
                        a["valid"] = {"has": True, "s": rng.choice([[], ["cm"], ["1000ft3", "m"], ["s"], ["m"], ["Mcf", "cm"]])}
                    if rng.random() < 0.2:
                        a["du"] = rng.choice(["cm", "1000ft3", "s", "m", "Mcf"])
                    do("AddCategory", a)
                else:
                    do("Clear", {"x": 0})
                battery = [("GetDefaultCategory", {"u": u}) for u in spell] + [("Scalar", {"c": NONE, "u": u, "form": "U"}) for u in spell]
                battery += [("Obtain", {"u": u, "c": NONE}) for u in units] + [("Scalar", {"c": c, "u": NONE, "form": "C"}) for c in cats]
                battery += [("GetValidUnits", {"c": c}) for c in cats] + [("GetBaseUnit", {"qt": q}) for q in qts]
                battery += [("FindUnitCase", {"c": c, "u": q_}) for c in cats for q_ in ("M", "cM", "mcf", "S", "s", "MCF", "x")]
                for op, a in rng.sample(battery, len(battery) // 2):
                    do(op, a)
        finally:
            w.close()
    return events


def regcheck_factors():
    from .regcheck import FACTORS
    return FACTORS


def posc_history(which="default"):
    """The top-level AddUnitBase / AddUnit / AddCategory calls a shipped filler makes, recorded by wrapping the instance.
    which: 'default' (POSC with categories), 'posc_nocat' (POSC without categories), 'simple' (FillSimple)."""
    from barril.units import UnitDatabase

    db = UnitDatabase()
    events = []
    depth = [0]

    def wrap(name, mkargs):
        orig = getattr(db, name)

        def f(*a, **k):
            depth[0] += 1
            exc = None
            try:
                return orig(*a, **k)
            except Exception as e:  # noqa
                exc = e
                raise
            finally:
                depth[0] -= 1
                if depth[0] == 0:
                    events.append({"tid": 0, "op": name, "a": mkargs(*a, **k),
                                   "out": {"k": "ok" if exc is None else P.exc_family(exc), "s": [], "t": "", "b": False, "has_x": False, "x": d9(0.0)},
                                   "has_state": False, "state": {"order": [], "units": [], "cats": []}})
        setattr(db, name, f)

    wrap("AddUnitBase", lambda qt, name, unit: {"qt": qt, "u": unit})
    wrap("AddUnit", lambda qt, name, unit, frombase, tobase, default_category=None: {"qt": qt, "u": unit, "dc": default_category or NONE})

    def cat(category, quantity_type=None, valid_units=None, override=False, default_unit=None, default_value=None, min_value=None,
            max_value=None, is_min_exclusive=False, is_max_exclusive=False, caption="", from_category=None):
        iv = lambda v: None if v is None else (int(v) if float(v) == int(v) else None)
        return catargs(category, quantity_type or NONE, list(valid_units) if valid_units is not None else None, bool(override), default_unit or NONE,
                       iv(default_value), iv(min_value), iv(max_value), bool(is_min_exclusive), bool(is_max_exclusive), from_category or NONE)
    wrap("AddCategory", cat)
    if which == "default":
        UnitDatabase.FillUnitDatabaseWithPosc(db)
    elif which == "posc_nocat":
        UnitDatabase.FillUnitDatabaseWithPosc(db, fill_categories=False)
    else:
        UnitDatabase.FillSimple(db)
    return db, events


def suite_history(bd):
    """The registry histories of the repository's own test-suite: the suite is run (from BARRIL_SRC's tree) with the recording plugin
    harness/plugins/verif_suite_trace.py; identical histories (every default POSC fill) are validated once."""
    import hashlib
    import json
    import subprocess
    import sys

    src = os.environ.get("BARRIL_SRC", "/repo/src")
    root = os.path.dirname(os.path.abspath(src))
    out = os.path.join(bd, "suite-trace.ndjson")
    for f in (out, out + ".meta"):
        if os.path.exists(f):
            os.remove(f)
    env = dict(os.environ, BARRIL_VERIF="1", VERIF_SUITE_TRACE=out,
               PYTHONPATH=os.pathsep.join([os.path.join(common.VERIF, "harness", "plugins"), src]), PYTHONDONTWRITEBYTECODE="1")
    r = subprocess.run([sys.executable, "-B", "-m", "pytest", "-q", "-p", "no:cacheprovider", "-p", "verif_suite_trace", "--timeout=900", "-x", "-q",
                        os.path.join(src, "barril")], cwd=root, env=env, capture_output=True, text=True, timeout=1800)
    if not os.path.exists(out):
        raise common.MachineryError("the recording run of the test-suite wrote no trace: %s" % (r.stdout[-400:] + r.stderr[-400:]))
    meta = json.load(open(out + ".meta"))
    by_tid = {}
    for line in open(out):
        e = json.loads(line)
        by_tid.setdefault(e["tid"], []).append(e)
    seen = {}
    events = []
    for tid, evs in by_tid.items():
        h = hashlib.sha1(json.dumps([(e["op"], e["a"], e["out"]) for e in evs], sort_keys=True).encode()).hexdigest()
        if h in seen:
            seen[h] += 1
            continue
        seen[h] = 1
        events.extend(evs)
    info = {"suite_tail": r.stdout.strip().splitlines()[-1] if r.stdout.strip() else "", "instances": meta["histories"], "recorded_histories": len(by_tid),
            "distinct_histories": len(seen), "dropped": meta["dropped"], "events": len(events)}
    return events, info


def validate(rep, bd, events, name, tag):
    lib = common.write_data_module(os.path.join(bd, "lib-" + tag), "RegTraceData",
                                   {"LegacyData": [list(p) for p in __import__("barril.units.unit_database", fromlist=["x"])._LEGACY_TO_CURRENT],
                                    "FactorData": {u: list(f) for u, f in regcheck_factors().items()}})
    r = common.judge_trace(rep, bd, events, name, module="MC_RegTrace", tag=tag, library=lib,
                           key_of=lambda v: {"check": "recorded call against the reference semantics", "op": v.get("op"), "args": v.get("a")})
    return r


def self_test(bd, events):
    """Binding demonstration, run with every check: a copy of the trace with one corrupted outcome and one corrupted
    projected state must be rejected at exactly those lines."""
    import copy as _c
    ev = _c.deepcopy(events[:120])
    idx = [i for i, e in enumerate(ev) if e["out"]["k"] == "ok" and e["op"] in ("AddUnit", "AddUnitBase")]
    if len(idx) < 2:
        raise common.MachineryError("self-test: not enough accepted registrations in the trace")
    ev[idx[0]]["out"]["k"] = "RUNTIME"
    if ev[idx[1]]["has_state"]:
        ev[idx[1]]["state"]["order"] = ev[idx[1]]["state"]["order"][:-1]
    else:
        ev[idx[1]]["out"]["t"] = "corrupted"
    rep2 = common.Report("selftest", "quick")
    validate(rep2, bd, ev, "self-test (corrupted trace)", "selftest")
    lines = sorted(v["detail"].get("line") for v in rep2.violations)
    if not {idx[0] + 1, idx[1] + 1} <= set(lines):
        raise common.MachineryError("self-test: corrupted lines %r are not among the rejected lines %r" % ([idx[0] + 1, idx[1] + 1], lines))
    return "a copy of the trace with lines %d and %d corrupted is rejected at those lines" % (idx[0] + 1, idx[1] + 1)
