"""C12 - limit validation depends only on the physical amount (spec/Validation.tla, MC_C12.tla)."""
import json
import math
import os
import random

from . import common, project as P

UNITS = {"du": None, "sc": (0.0, 1.0, 8.0, 0.0), "af": (4.0, 1.0, 1.0, 0.0), "rv": (6.0, -1.0, 1.0, 0.0)}


def fresh_db():
    from barril.units import UnitDatabase
    from barril.units.posc import MakeBaseToCustomary, MakeCustomaryToBase

    db = UnitDatabase()
    db.AddUnitBase("Q", "default unit", "du")
    for u in ("sc", "af", "rv"):
        db.AddUnit("Q", "unit " + u, u, MakeBaseToCustomary(*UNITS[u]), MakeCustomaryToBase(*UNITS[u]))
    # a unit with a legacy spelling ('1000ft3' is rewritten to 'Mcf'), scaled by 1/4
    db.AddUnit("Q", "unit Mcf", "Mcf", MakeBaseToCustomary(0.0, 1.0, 4.0, 0.0), MakeCustomaryToBase(0.0, 1.0, 4.0, 0.0))
    return db


def tofloat(j):
    return {"NAN": float("nan"), "PINF": float("inf"), "NINF": float("-inf")}.get(j["t"]) if j["t"] else j["n"] / j["d"]


def add_category(db, cfg, name="c"):
    kw = {}
    if cfg["min"]:
        kw["min_value"] = float(cfg["minv"])
    if cfg["max"]:
        kw["max_value"] = float(cfg["maxv"])
    if cfg["minx"]:
        kw["is_min_exclusive"] = True
    if cfg["maxx"]:
        kw["is_max_exclusive"] = True
    lo = cfg["minv"] if cfg["min"] else None
    hi = cfg["maxv"] if cfg["max"] else None
    dv = (lo + hi) / 2.0 if lo is not None and hi is not None else (lo + 1.0 if lo is not None else (hi - 1.0 if hi is not None else 0.0))
    db.AddCategory(name, "Q", override=True, default_unit="du", default_value=dv, **kw)


def verdict(obj):
    """(ok, operator, limit) as reported by IsValid / CheckValidity."""
    from barril.units.exceptions import QuantityValidationError

    try:
        obj.CheckValidity()
        ok = True
        rep = ("", 0)
    except QuantityValidationError as e:
        ok = False
        rep = (e.operator, e.limit_value)
    if bool(obj.IsValid()) != ok:
        return ("IsValid disagrees with CheckValidity", "", 0)
    return (ok,) + rep


def main(tier):
    import numpy
    from barril.units import Array, FractionScalar, Scalar, UnitDatabase

    rep = common.Report("C12", tier)
    bd = common.build_dir("C12")
    thorough = tier == "thorough"
    rng = random.Random(common.seed() + 12)
    out = os.path.join(bd, "gen.json")
    maxlen = 3
    r = common.run_tlc("MC_C12", "MC_C12.cfg", bd, env={"MODE": "gen", "OUT_FILE": out, "TRACE_FILE": ""}, workers=1, coverage=False, tag="gen",
                       consts={"InfBecomesNaN": False, "MaxLen": maxlen}, timeout=3000)
    rep.add_tlc("scalar / array / tuple laws by enumeration; predicted verdict of every case", r)
    g = json.load(open(out))
    if not all(g["laws"].values()):
        raise common.MachineryError("the transcribed validation violates the per-element law: %r" % g["laws"])
    out2 = os.path.join(bd, "neg.json")
    r = common.run_tlc("MC_C12", "MC_C12.cfg", bd, env={"MODE": "laws", "OUT_FILE": out2, "TRACE_FILE": ""}, workers=1, coverage=False, tag="neg",
                       consts={"InfBecomesNaN": True, "MaxLen": 2})
    if any(json.load(open(out2))["laws"].values()):
        raise common.MachineryError("negative control: infinities converted to NaN were not detected by the model")
    rep.cov["negative_control"] = "with 0*inf = NaN in the conversion all three laws fail in TLC (as expected)"
    db = fresh_db()
    UnitDatabase.PushSingleton(db)
    n = 0
    try:
        by_cfg = {}
        for s in g["scalars"]:
            by_cfg.setdefault(json.dumps(s["cfg"], sort_keys=True), {"cfg": s["cfg"], "scalars": [], "arrays": []})["scalars"].append(s)
        for a in g["arrays"]:
            by_cfg[json.dumps(a["cfg"], sort_keys=True)]["arrays"].append(a)
        lookup = {}
        for key, grp in by_cfg.items():
            for a in grp["arrays"]:
                lookup[(key, a["u"], json.dumps(a["xs"]))] = a["r"]
        keys = list(by_cfg)
        for ki, (key, grp) in enumerate(by_cfg.items()):
            cfg = grp["cfg"]
            add_category(db, cfg)
            key2 = keys[(ki * 5 + 3) % len(keys)]          # a second category with other limits (histories through the cached verdict)
            add_category(db, by_cfg[key2]["cfg"], "c2")
            for s in grp["scalars"]:
                x = tofloat(s["x"])
                want = (s["r"]["ok"], s["r"]["op"], s["r"]["lim"]) if not s["r"]["ok"] else (True, "", 0)
                objs = [("Scalar", Scalar("c", x, s["u"]))]
                objs.append(("FractionScalar", FractionScalar("c", value=x, unit=s["u"])))
                for cls, o in objs:
                    got = verdict(o)
                    n += 1
                    if got != want:
                        rep.violation({"check": "scalar verdict", "cls": cls, "cfg": cfg, "unit": s["u"], "x": s["x"]}, {"predicted": want, "observed": got})
            for a in grp["arrays"]:
                if len(a["xs"]) == maxlen and not thorough and rng.random() > 0.25:
                    continue
                xs = [tofloat(v) for v in a["xs"]]
                want = (a["r"]["ok"], a["r"]["op"], a["r"]["lim"]) if not a["r"]["ok"] else (True, "", 0)
                conts = [("list", list(xs)), ("tuple", tuple(xs)), ("ndarray", numpy.array(xs, dtype=float))]
                for kind, cont in conts:
                    arr = Array("c", cont, a["u"])
                    got = verdict(arr)
                    n += 1
                    if got != want:
                        rep.violation({"check": "array verdict", "kind": kind, "cfg": cfg, "unit": a["u"], "xs": a["xs"]}, {"predicted": want, "observed": got})
                    if verdict(arr) != got:
                        rep.violation({"check": "array verdict changes when asked again", "kind": kind, "cfg": cfg, "unit": a["u"], "xs": a["xs"]}, {})
                    # the already validated array re-created under a category with other limits
                    r2 = lookup[(key2, a["u"], json.dumps(a["xs"]))]
                    want2 = (r2["ok"], r2["op"], r2["lim"]) if not r2["ok"] else (True, "", 0)
                    got2 = verdict(arr.CreateCopy(unit=a["u"], category="c2"))
                    n += 1
                    if got2 != want2:
                        rep.violation({"check": "verdict of a validated array copied into another category", "kind": kind, "cfg": cfg,
                                       "cfg2": by_cfg[key2]["cfg"], "unit": a["u"], "xs": a["xs"]}, {"predicted": want2, "observed": got2})
                if len(xs) >= 2 and not any(v["t"] == "NAN" for v in a["xs"]):
                    wt = (a["t"]["ok"], a["t"]["op"], a["t"]["lim"]) if not a["t"]["ok"] else (True, "", 0)
                    got = verdict(Array("c", [tuple(xs[:1]), tuple(xs[1:])], a["u"]))
                    n += 1
                    if got != wt:
                        rep.violation({"check": "tuple-of-tuples verdict", "cfg": cfg, "unit": a["u"], "xs": a["xs"]}, {"predicted": wt, "observed": got})
        rep.count(evaluations=n, nontrivial=n, traces=n)
        rep.sample({"predicted_case": g["arrays"][len(g["arrays"]) // 3]})
        # long NaN-rich arrays in every container kind, validated by TLC (direction B)
        events = []
        vals = [-32, -4, -1, 0, 4, 8, 9, 64]
        cfgs = [grp["cfg"] for grp in by_cfg.values()]
        for _ in range(600 if thorough else 150):
            cfg = rng.choice(cfgs)
            add_category(db, cfg)
            u = rng.choice(list(UNITS))
            k = rng.randrange(4, 40)
            js = []
            for _i in range(k):
                p = rng.random()
                if p < 0.3:
                    js.append({"t": "NAN", "n": 0, "d": 1})
                elif p < 0.36:
                    js.append({"t": rng.choice(["PINF", "NINF"]), "n": 0, "d": 1})
                else:
                    js.append({"t": "", "n": rng.choice(vals), "d": 1})
            xs = [tofloat(v) for v in js]
            kind = rng.choice(["list", "tuple", "ndarray"])
            cont = {"list": list(xs), "tuple": tuple(xs), "ndarray": numpy.array(xs, dtype=float)}[kind]
            got = verdict(Array("c", cont, u))
            events.append({"cfg": cfg, "u": u, "xs": js, "kind": kind, "ok": got[0] is True, "rop": got[1], "rlim": int(got[2]) if got[0] is not True and got[2] == int(got[2]) else 0,
                           "note": "" if isinstance(got[0], bool) else got[0]})
    finally:
        UnitDatabase.PopSingleton()
    # registering a category never yields a default unit / default value that violates its own constraints
    db = fresh_db()
    db.AddUnitBase("T", "unit of another quantity type", "tu")
    UnitDatabase.PushSingleton(db)
    cons = []
    try:
        for cfg in cfgs:
            for valid in (None, ["sc"], ["1000ft3"], ["1000ft3", "af"], ["af", "1000ft3"], ["du", "sc"]):
                kw = {k: v for k, v in (("min_value", float(cfg["minv"]) if cfg["min"] else None), ("max_value", float(cfg["maxv"]) if cfg["max"] else None)) if v is not None}
                if cfg["minx"] or cfg["maxx"]:
                    continue          # exclusive limits require an explicit default value (covered by add_category above)
                o = P.outcome(lambda: db.AddCategory("k", "Q", valid_units=list(valid) if valid is not None else None, override=True, **kw))
                if o[0] != "ok":
                    continue
                du = db.GetDefaultUnit("k")
                vu = list(db.GetValidUnits("k")) if valid is not None else list(db.GetUnits("Q"))
                s_ = P.outcome(Scalar, "k")
                cons.append({"op": "CatConsistent", "call": "AddCategory(valid_units=%r, %r)" % (valid, kw), "du_registered": du in db.GetUnits("Q"),
                             "du_in_valid": du in vu, "scalar_built": s_[0] == "ok", "scalar_valid": s_[0] == "ok" and bool(s_[1].IsValid()),
                             "scalar_unit_is_du": s_[0] == "ok" and s_[1].GetUnit() == du,
                             "check_default": P.outcome(db.CheckCategoryUnit, "k", du)[0] == "ok"})
                # a category derived from this one (from_category) with some of the limits overridden: accepted only with a default
                # value inside the limits it ends up with
                if valid is None:
                    for dv in (None, 3.0):
                        kw0 = dict(kw, default_value=dv) if dv is not None else dict(kw)
                        if P.outcome(lambda: db.AddCategory("k", "Q", override=True, **kw0))[0] != "ok":
                            continue
                        pdv = db.GetCategoryInfo("k").default_value
                        for over in ({"min_value": pdv + 1.0}, {"max_value": pdv - 1.0}, {"min_value": pdv - 1.0}, {"max_value": pdv + 1.0},
                                     {"min_value": pdv + 1.0, "max_value": pdv + 5.0}, {"min_value": pdv, "is_min_exclusive": True},
                                     {"max_value": pdv, "is_max_exclusive": True}, {},
                                     # ... and with a default unit / valid units of its own: another unit of the type, a legacy spelling, a unit of another type
                                     {"default_unit": "du"}, {"default_unit": "1000ft3", "valid_units": ["1000ft3", "du"]}, {"default_unit": "tu"}, {"valid_units": ["tu"]},
                                     {"valid_units": ["du", "tu"]}, {"default_unit": "du", "valid_units": ["du", "sc"]}):
                            o2 = P.outcome(lambda: db.AddCategory("k2", from_category="k", override=True, **over))
                            if o2[0] != "ok":
                                continue
                            du2 = db.GetDefaultUnit("k2")
                            s2 = P.outcome(Scalar, "k2")
                            cons.append({"op": "CatConsistent", "call": "AddCategory(from_category=<%r>, %r)" % (kw0, over), "du_registered": du2 in db.GetUnits("Q"),
                                         "du_in_valid": all(v_ in db.GetUnits("Q") for v_ in (db.GetCategoryInfo("k2").valid_units or [])), "scalar_built": s2[0] == "ok", "scalar_valid": s2[0] == "ok" and bool(s2[1].IsValid()),
                                         "scalar_unit_is_du": s2[0] == "ok" and s2[1].GetUnit() == du2,
                                         "check_default": P.outcome(db.CheckCategoryUnit, "k2", du2)[0] == "ok"})
    finally:
        UnitDatabase.PopSingleton()
    # on the real table: (a) the verdict does not depend on the dtype of a numpy container (the same amounts as python floats in a list);
    # (b) nor on what was built before the limits were registered, nor on the construction form
    from . import export
    dbr = export.build_db("default")
    UnitDatabase.PushSingleton(dbr)
    try:
        def vd(mk):
            o = P.outcome(mk)
            return json.dumps(verdict(o[1])) if o[0] == "ok" else "raised " + o[2]
        dbr.AddCategory("verif bounded length", "length", default_unit="mm", default_value=50.0, min_value=0.0, max_value=100.0)
        dbr.AddCategory("verif cold", "temperature", default_unit="degC", default_value=0.0, min_value=-273.15)
        for dt in (numpy.float32, numpy.float16, numpy.float64):
            for cat_, unit_, vals_ in (("verif bounded length", "m", [0.05, 0.1]), ("verif bounded length", "m", [0.1]), ("verif bounded length", "m", [0.02, 0.0999]),
                                       ("verif bounded length", "cm", [10.0, 3.3]), ("verif bounded length", "m", [-1e-9, 0.01]), ("verif bounded length", "in", [3.937, 1.0]),
                                       ("verif cold", "K", [300.0, -1e-6]), ("verif cold", "K", [1e-3, 5.0]), ("verif cold", "degF", [-459.67, 10.0]), ("verif cold", "degF", [-459.7])):
                arr_ = numpy.array(vals_, dtype=dt)
                cons.append({"op": "Same", "call": "verdict of a %s array %r %s against the same amounts as python floats in a list" % (dt.__name__, vals_, unit_),
                             "a": vd(lambda: Array(cat_, arr_, unit_)), "b": vd(lambda: Array(cat_, [float(x) for x in arr_], unit_))})
        for u_ in ("m", "cm", "ft"):
            Scalar(3.0, u_), Array([1.0, 2.0], u_), FractionScalar(1.5, u_)          # built while 'length' has no limits
        dbr.AddCategory("length", "length", override=True, min_value=0.0, max_value=1000.0)
        for u_, bad_, good_ in (("m", -1.0, 5.0), ("cm", 200000.0, 5.0), ("ft", -0.5, 10.0), ("km", 2.0, 0.5), ("mm", -3.0, 3.0)):
            for x_ in (bad_, good_):
                ref_ = vd(lambda: Scalar("length", x_, u_))
                for name_, mk_ in (("Scalar(x, u)", lambda: Scalar(x_, u_)), ("Scalar((x, u))", lambda: Scalar((x_, u_))), ("Array([x], u)", lambda: Array([x_], u_)),
                                   ("Array(numpy, u)", lambda: Array(numpy.array([x_]), u_)), ("FractionScalar(x, u)", lambda: FractionScalar(x_, u_)),
                                   ("Array('length', [x], u)", lambda: Array("length", [x_], u_))):
                    cons.append({"op": "Same", "call": "%s with %r %s after limits 0..1000 m were registered for 'length' (values in m, cm, ft existed before)" % (name_, x_, u_),
                                 "a": vd(mk_), "b": ref_})
    finally:
        UnitDatabase.PopSingleton()
    common.judge_trace(rep, bd, cons, "categories registered with limits and valid units (legacy spellings first, base unit absent): consistent defaults", tag="consistent")
    trace = os.path.join(bd, "long.ndjson")
    with open(trace, "w") as f:
        for e in events:
            f.write(json.dumps(e) + "\n")
    r = common.run_tlc("MC_C12", "MC_C12.cfg", bd, env={"MODE": "judge", "OUT_FILE": out, "TRACE_FILE": trace}, workers=1, coverage=False, tag="judge",
                       consts={"InfBecomesNaN": False, "MaxLen": 0})
    rep.add_tlc("recorded verdicts of %d long NaN-rich arrays" % len(events), r)
    if r.distinct != len(events) + 1:
        raise common.MachineryError("trace not consumed")
    for v in r.tagged("VIOL"):
        e = v["ev"]
        rep.violation({"check": "long array verdict", "cfg": e["cfg"], "unit": e["u"], "kind": e["kind"], "xs": e["xs"][:12]}, {"observed": [e["ok"], e["rop"], e["rlim"]]})
    rep.count(evaluations=len(events), nontrivial=len(events), traces=1)
    rep.cov["exhaustive"] = thorough
    rep.assumptions += ["units du (default), sc (x/8), af (x+4), rv (6-x, order-reversing): conversions exact in binary, so amounts exactly on a limit are decidable (DESIGN 8)",
                        "Registering a category never yields an invalid default: decided by C14 (Well_Cats / Inv_Buildable in Registry.tla)"]
    return rep.finish(rule="16 limit configurations x 3 units x 11 values (NaN, +-inf, on / next to / away from the limits) for Scalar and "
                           "FractionScalar; x all sequences of length <= 3 (quick: 1/4 of length 3) in list / tuple / ndarray / tuple-of-tuples "
                           "containers; verdict, operator and limit compared with TLC's prediction; long random arrays judged by TLC")
