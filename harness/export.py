"""Projection of the shipped unit databases (built from the working tree) to JSON for TLC.

TLC has no floats and 32-bit integers: floats are exported as repr() strings, plus exact
rationals [n, d] when the decimal literal gives a small one (both terms < 2^31 after reduction).
"""
import fractions
import json

from barril.units import UnitDatabase
from barril.units import unit_database as _udb

MAXI = 2 ** 31 - 1


def rat_of(x, limit=MAXI):
    """Exact rational of the *decimal literal* repr(x) if its terms fit, else None."""
    try:
        f = fractions.Fraction(repr(float(x)))
    except (ValueError, OverflowError):
        return None
    if abs(f.numerator) <= limit and f.denominator <= limit:
        return [f.numerator, f.denominator]
    return None


def closure_coeffs(fn):
    if hasattr(fn, "__a__"):
        return [float(getattr(fn, "__%s__" % k)) for k in "abcd"]
    return None


def build_db(which):
    """which in {'default', 'posc_nocat', 'simple'}: a fresh database built by the shipped filler."""
    if which == "default":
        return UnitDatabase.CreateDefaultSingleton()
    if which == "posc_nocat":
        return UnitDatabase.FillUnitDatabaseWithPosc(UnitDatabase(), fill_categories=False)
    if which == "simple":
        db = UnitDatabase()
        UnitDatabase.FillSimple(db)
        return db
    raise ValueError(which)


PROBES = [0.0, 1.0, -1.0, 2.5, 1000.0, -273.15, 1e-3, 12345.678]


def _in_limits(ci):
    """Measured: the category's default value against its own limits (floats compared as floats)."""
    v = ci.default_value
    try:
        if ci.min_value is not None and not (v > ci.min_value if ci.is_min_exclusive else v >= ci.min_value):
            return False
        if ci.max_value is not None and not (v < ci.max_value if ci.is_max_exclusive else v <= ci.max_value):
            return False
    except TypeError:
        return False
    return True


def project_db(db):
    rows = []
    for qt, infos in db.quantity_types.items():
        for pos, info in enumerate(infos):
            tb = closure_coeffs(info.tobase)
            fb = closure_coeffs(info.frombase)
            ident = all(info.tobase(p) == p and info.frombase(p) == p for p in PROBES)
            row = {
                "unit": info.unit, "qt": qt, "name": info.name, "pos": pos + 1,
                "defcat": info.default_category or "",
                "has_tb": tb is not None, "has_fb": fb is not None,
                "tb": [repr(x) for x in tb] if tb else [],
                "fb": [repr(x) for x in fb] if fb else [],
                "ident": ident,
                "mapped_qt": db.unit_to_unit_info[info.unit].quantity_type if info.unit in db.unit_to_unit_info else "",
            }
            if tb:
                r = [rat_of(x) for x in tb]
                row["tb_rat"] = r if all(r) else []
            else:
                row["tb_rat"] = []
            rows.append(row)
    cats = []
    for c, ci in db.categories_to_quantity_types.items():
        cats.append({
            "cat": c, "qt": ci.quantity_type,
            "valid": list(ci.valid_units) if ci.valid_units is not None else [],
            "has_valid": ci.valid_units is not None,
            "du": ci.default_unit or "", "dv": repr(ci.default_value),
            "has_min": ci.min_value is not None, "min": repr(ci.min_value),
            "has_max": ci.max_value is not None, "max": repr(ci.max_value),
            "minx": bool(ci.is_min_exclusive), "maxx": bool(ci.is_max_exclusive),
            "caption": ci.caption,
            "dv_in_limits": _in_limits(ci),
        })
    legacy = [[a, b] for a, b in _udb._LEGACY_TO_CURRENT]
    return {"rows": rows, "cats": cats, "legacy": legacy,
            "qts": list(db.quantity_types.keys()),
            "nunits_mapped": len(db.unit_to_unit_info)}


def export(which, path):
    db = build_db(which)
    proj = project_db(db)
    with open(path, "w") as f:
        json.dump(proj, f)
    return db, proj
