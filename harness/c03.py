"""C03 - sums and differences convert the right operand to the left one's units.

Model side: spec/QAlg.tla (properties C03_*) with every generated sum replayed (harness/qalg.py).  Real-table side (direction B): sums over
pairs of units of the real POSC table - neighbours in size (ft / ftUS, in / inUS, ...) first - recorded and validated by TLC
(spec/MC_Judge.tla: SumAgrees); the reference amount uses the table conversion that C01 binds to the specification.
"""
import random

from . import common, project as P, qalg


def table_sum_events(env, rng, thorough):
    import numpy
    from barril.units import Array, Scalar

    db = env.db
    events = []
    for qt, infos in db.quantity_types.items():
        if qt in ("Unknown", "dimensionless") or len(infos) < 2:
            continue
        cat = db.GetDefaultCategory(infos[0].unit)
        if not cat:
            continue
        scale_only = []
        for i in infos:
            z, one = db.Convert(qt, i.unit, infos[0].unit, 0.0), db.Convert(qt, i.unit, infos[0].unit, 1.0)
            if z == 0.0 and one > 0.0 and abs(db.Convert(qt, i.unit, infos[0].unit, 2.0) - 2.0 * one) <= 1e-12 * one:
                scale_only.append((one, i.unit))
        scale_only.sort()
        us = [u for _s, u in scale_only]
        pairs = [(us[k], us[k + 1]) for k in range(len(us) - 1)] + [(us[k + 1], us[k]) for k in range(len(us) - 1)]
        light = set()
        if not thorough and len(pairs) > 8:
            # neighbours that are nearly the same size (but not the same size) are kept with every operand kind, four sampled pairs as well;
            # every other neighbour pair is kept too - every unit is the left operand of a sum at least once - with Scalars at exponent 1 only
            near = [(a, b) for a, b in pairs if 0.0 < abs(db.Convert(qt, a, b, 1.0) - 1.0) < 1e-3]
            full = set(near[:16] + rng.sample(pairs, 4))
            light = set(pairs) - full
        pairs += [tuple(rng.sample(us, 2)) for _ in range(8 if thorough else 2)] if len(us) > 2 else []
        for u, v in pairs:
            r = db.Convert(qt, v, u, 1.0)
            x, y = 1.0e6, 1.0e6
            for e in ((1,) if (u, v) in light else (1, 2)):
                def mk(val, unit, cls):
                    a = Scalar(cat, val, unit) if cls == "Scalar" else Array(cat, numpy.array([val, 2 * val]) if cls == "ndarray" else [val, 2 * val], unit)
                    if e == 2:
                        a = a * (Scalar(cat, 1.0, unit) if cls == "Scalar" else Array(cat, [1.0, 1.0], unit))
                    return a
                for cls in (("Scalar",) if (u, v) in light else ("Scalar", "list", "ndarray")):
                    for opn, sgn in (("+", 1.0), ("-", -1.0)):
                        a, b = mk(x, u, cls), mk(y, v, cls)
                        o = P.outcome((lambda: a + b) if sgn > 0 else (lambda: a - b))
                        want = x + sgn * y * r ** e
                        ev = {"op": "SumAgrees", "call": "%s %s %s, exponent %d" % (cls, opn, cls, e), "qtype": qt, "u": u, "v": v, "ok": o[0] == "ok",
                              "ppt": 2 ** 31 - 1, "comm_ppt": 0, "units_kept": False, "left_kept": False, "want": want}
                        if o[0] == "ok":
                            got = o[1].GetAbstractValue()
                            got = [float(g) for g in got] if cls != "Scalar" else [float(got)]
                            wants = [want] if cls == "Scalar" else [want, 2 * want]
                            scale = abs(x) + abs(y * r ** e)
                            ev["ppt"] = max(min(2 ** 31 - 1, int(abs(g - w) / (scale * (k + 1)) * 1e12)) for k, (g, w) in enumerate(zip(got, wants)))
                            ev["got"] = got
                            ev["units_kept"] = o[1].GetQuantity() == a.GetQuantity()
                            # the same two operands in the other order denote the same amount (minus it for a difference): both results
                            # read in the base unit with each unit's own to-base direction only
                            o2 = P.outcome((lambda: b + a) if sgn > 0 else (lambda: b - a))
                            ev["comm_ppt"] = 2 ** 31 - 1
                            if o2[0] == "ok":
                                tb_u, tb_v = db.Convert(qt, u, infos[0].unit, 1.0) ** e, db.Convert(qt, v, infos[0].unit, 1.0) ** e
                                got2 = o2[1].GetAbstractValue()
                                got2 = [float(g) for g in got2] if cls != "Scalar" else [float(got2)]
                                sc_b = (abs(x) * tb_u + abs(y) * tb_v)
                                ev["comm_ppt"] = max(min(2 ** 31 - 1, int(abs(g * tb_u - sgn * h * tb_v) / (sc_b * (k + 1)) * 1e12)) for k, (g, h) in enumerate(zip(got, got2)))
                            left = a.GetAbstractValue()
                            ev["left_kept"] = ([float(z) for z in left] if cls != "Scalar" else [float(left)]) == ([x, 2 * x] if cls != "Scalar" else [x])
                        else:
                            ev["exc"] = o[2]
                        events.append(ev)
    # python integers held in list / tuple Arrays are added as python integers (no machine-word arithmetic)
    for kind in (list, tuple):
        for a_, b_, want_ in (([2 ** 62, 5], [2 ** 62, 7], [2 ** 63, 12]), ([-7 * 10 ** 18, 1], [7 * 10 ** 18, 1], None), ([2 ** 53 + 1, 1], [0, 0.5], [2 ** 53 + 1, 1.5])):
            for opn in ("+", "-"):
                A, B = Array("length", kind(a_), "mm"), Array("length", kind(b_), "mm")
                o = P.outcome((lambda: A + B) if opn == "+" else (lambda: A - B))
                want = [x + y if opn == "+" else x - y for x, y in zip(a_, b_)]
                got = list(o[1].GetAbstractValue()) if o[0] == "ok" else None
                events.append({"op": "SumAgrees", "call": "%s Array of python integers %r %s %r" % (kind.__name__, a_, opn, b_), "qtype": "length", "u": "mm", "v": "mm",
                               "ok": o[0] == "ok", "ppt": 0 if got == want else 2 ** 31 - 1, "comm_ppt": 0, "units_kept": o[0] == "ok" and o[1].GetUnit() == "mm", "left_kept": list(A.GetAbstractValue()) == a_,
                               "want": repr(want), "got": repr(got)})
    return events


def main(tier):
    rep, bd, env, stats = qalg.run("C03", tier, "sum", "")
    events = table_sum_events(env, random.Random(common.seed() + 3), tier == "thorough")
    common.judge_trace(rep, bd, events, "sums and differences over pairs of units of the real table (neighbours in size included)",
                       key_of=lambda ev: {"check": "table sum " + ev["call"], "qtype": ev["qtype"], "u": ev["u"], "v": ev["v"]})
    return qalg.finish(rep, env, rule="(a) every transition TLC generates for the bounded quantity-algebra machine whose last step is "
                       "an addition or subtraction (operands built by up to two products/quotients/powers of "
                       "table units) is executed on real Scalars and compared with the prediction; distinct = distinct (pool, call) pairs; "
                       "(b) sums / differences of Scalars and Arrays over pairs of scale-only units of every quantity type of the real table, "
                       "at exponent 1 and 2, validated by TLC against the table conversion")
