"""C03 - see spec/QAlg.tla (properties C03_*) and harness/qalg.py."""
from . import qalg


def main(tier):
    rep, bd, env, stats = qalg.run("C03", tier, "sum", "")
    return qalg.finish(rep, env, rule="every transition TLC generates for the bounded quantity-algebra machine whose last step is "
                       "an addition or subtraction (operands built by up to two products/quotients/powers of "
                       "table units) is executed on real Scalars and compared with the prediction; distinct = distinct (pool, call) pairs")
