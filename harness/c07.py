"""C07 - quantities are immutable values with sound equality, hash and copying.

The monitors of harness/qalg.py run on every replayed transition of the quantity-algebra machine (every quantity in the database's
cache and every quantity seen is re-projected after each step; ==/hash are compared pairwise with composing-map equality; copies are
identical, pickles equal).  In addition, creation in every request form (unit, unit+category, category only, composing lists,
ordered map - including maps with two categories of one quantity type in different units), repeated requests, mutators and a
seeded history of mixed operations (failing ones included) are recorded on the real database and validated by TLC (MC_Judge.tla).
"""
import copy
import pickle
import random
from collections import OrderedDict

from . import common, project as P, qalg


def desc(q):
    return repr(qalg.q_snapshot(q)[:6])


def events_for(env, rng, thorough):
    from barril.units import Array, ObtainQuantity, Quantity, Scalar
    from barril.units.unit_database import UnitsError

    db = env.db
    ev = []
    atoms = [("length", "m"), ("length", "cm"), ("depth", "km"), ("depth", "m"), ("time", "s"), ("time", "min"), ("temperature", "degC"),
             ("temperature", "K"), ("mass", "kg"), ("diameter", "cm")]
    requests = []
    for c, u in atoms:
        requests.append(("unit+category %s %s" % (u, c), lambda c=c, u=u: ObtainQuantity(u, c)))
        requests.append(("unit %s" % u, lambda u=u: ObtainQuantity(u)))
        requests.append(("category only %s" % c, lambda c=c: ObtainQuantity(None, c)))
        requests.append(("unit+category+caption %s %s" % (u, c), lambda c=c, u=u: ObtainQuantity(u, c, "cap")))
    for (c1, u1) in atoms:
        for (c2, u2) in atoms:
            if c1 == c2:
                continue
            for e1, e2 in ((1, 1), (1, -1), (2, -1), (-1, -2)):
                requests.append(("map %s%d %s%d [%s,%s]" % (u1, e1, u2, e2, c1, c2),
                                 lambda c1=c1, u1=u1, c2=c2, u2=u2, e1=e1, e2=e2: ObtainQuantity(OrderedDict([(c1, [u1, e1]), (c2, [u2, e2])]))))
                requests.append(("map+caption %s%d %s%d [%s,%s]" % (u1, e1, u2, e2, c1, c2),
                                 lambda c1=c1, u1=u1, c2=c2, u2=u2, e1=e1, e2=e2: ObtainQuantity(OrderedDict([(c1, [u1, e1]), (c2, [u2, e2])]), None, "flux")))
                requests.append(("lists %s%d %s%d [%s,%s]" % (u1, e1, u2, e2, c1, c2),
                                 lambda c1=c1, u1=u1, c2=c2, u2=u2, e1=e1, e2=e2: ObtainQuantity([(u1, e1), (u2, e2)], [c1, c2])))
    # the same composing content requested as an ordered map and as the two lists (units with exponents, categories)
    pairs_forms = []
    for (c1, u1), (c2, u2) in ((("length", "m"), ("time", "s")), (("depth", "km"), ("time", "min")), (("mass", "kg"), ("length", "cm"))):
        for e1, e2 in ((1, -1), (2, -1), (1, 1), (-1, -2)):
            pairs_forms.append(("map vs lists %s%d %s%d" % (u1, e1, u2, e2), OrderedDict([(c1, [u1, e1]), (c2, [u2, e2])]), [(u1, e1), (u2, e2)], [c1, c2]))
    for (c1, u1) in (("length", "m"), ("length", "cm"), ("time", "s")):
        for e1 in (2, 3, -1):
            pairs_forms.append(("map vs lists %s%d" % (u1, e1), OrderedDict([(c1, [u1, e1])]), [(u1, e1)], [c1]))
    requests.append(("empty", lambda: ObtainQuantity(OrderedDict())))
    requests.append(("unknown", lambda: ObtainQuantity("<unknown>", "Unknown", "Feet per Furlong")))
    if not thorough:
        requests = rng.sample(requests, 400)
    made = []
    for name, fn in requests:
        q1, q2 = fn(), fn()
        made.append((name, q1))
        ev.append({"op": "Intern", "call": name, "id1": id(q1), "id2": id(q2), "desc1": desc(q1), "desc2": desc(q2), "hash1": hash(q1), "hash2": hash(q2)})
        ev.append({"op": "QCopy", "call": name, "same_object": copy.copy(q1) is q1 and copy.deepcopy(q1) is q1 and q1.Copy() is q1})
        q3 = pickle.loads(pickle.dumps(q1))
        ev.append({"op": "QPickle", "call": name, "eq": bool(q3 == q1), "hash1": hash(q1), "hash2": hash(q3), "desc1": desc(q1), "desc2": desc(q3)})
        o = P.outcome(q1.SetUnknownCaption, "x")
        ev.append({"op": "ReadOnly", "call": name, "cls": o[2] if o[0] == "exc" else "no exception"})
        o = P.outcome(q1.SetUnknownCaption, q1.GetUnknownCaption())      # ... also when the caption given is the one it has
        ev.append({"op": "ReadOnly", "call": name + " (its own caption)", "cls": o[2] if o[0] == "exc" else "no exception"})
    # every category of the table: the category-only request resolves to the category's default unit whatever was requested before
    # (first the base unit of its quantity type with the category named, then the category alone; for every other category the other way round)
    for k_, c in enumerate(sorted(db.IterCategories())):
        ci = db.GetCategoryInfo(c)
        base, du = db.GetBaseUnit(ci.quantity_type), ci.default_unit
        if P.outcome(db.CheckCategoryUnit, c, base)[0] != "ok":
            continue
        first = "base unit first" if (k_ % 3) else "category first"
        if first == "base unit first":
            q0 = ObtainQuantity(base, c)
            q1 = ObtainQuantity(None, c)
        else:
            q1 = ObtainQuantity(None, c)
            q0 = ObtainQuantity(base, c)
        ev.append({"op": "Resolves", "call": "category only %s (%s)" % (c, first), "unit": q1.GetUnit(), "want_unit": du, "category": q1.GetCategory(), "want_category": c,
                   "unit0": q0.GetUnit(), "want_unit0": base, "eq": bool(q0 == q1) and hash(q0) == hash(q1) if base == du else bool(q0 != q1), "should_be_same": base == du})
    # every unit of the table, cold: the request with the category named, then the first unit-only request, then the first request again
    # must give the identical object both times (and the unit-only request an equal one, for a unit's default category)
    for k_, (u, info) in enumerate(sorted(db.unit_to_unit_info.items())):
        c = db.GetDefaultCategory(u)
        if not c or (not thorough and k_ % 3):
            continue
        q1 = ObtainQuantity(u, c)
        qn = ObtainQuantity(u)
        q2 = ObtainQuantity(u, c)
        ev.append({"op": "Intern", "call": "unit+category %s %s, the unit alone, the first request again" % (u, c), "id1": id(q1), "id2": id(q2), "desc1": desc(q1), "desc2": desc(q2),
                   "hash1": hash(q1), "hash2": hash(q2)})
        ev.append({"op": "SameReq", "call": "unit+category %s %s vs the unit alone" % (u, c), "eq": bool(q1 == qn), "ne": bool(q1 != qn), "hash1": hash(q1), "hash2": hash(qn),
                   "desc1": desc(q1), "desc2": desc(qn)})
    # legacy spellings of table units: the same quantity as the current spelling (equal, same hash, usable in a set, same composing units)
    from barril.units import unit_database as _udb
    for u in sorted(db.unit_to_unit_info):
        for old, new in _udb._LEGACY_TO_CURRENT:
            if new in u and _udb.FixUnitIfIsLegacy(u.replace(new, old))[1] == u:
                leg = u.replace(new, old)
                c = db.GetDefaultCategory(u)
                if not c:
                    continue
                # a history: the current spelling, the legacy spelling, the current spelling again - the identical object as the first time
                for how, mk in (("unit+category", lambda s_: ObtainQuantity(s_, c)), ("unit alone", lambda s_: ObtainQuantity(s_)), ("unit+category+caption", lambda s_: ObtainQuantity(s_, c, "cap"))):
                    h1 = P.outcome(mk, u)
                    P.outcome(mk, leg)
                    h2 = P.outcome(mk, u)
                    if h1[0] == "ok" and h2[0] == "ok":
                        ev.append({"op": "Intern", "call": "%s: %s, then the legacy spelling %s, then %s again" % (how, u, leg, u), "id1": id(h1[1]), "id2": id(h2[1]),
                                   "desc1": desc(h1[1]), "desc2": desc(h2[1]), "hash1": hash(h1[1]), "hash2": hash(h2[1])})
                for how, mk in (("unit+category", lambda s_: ObtainQuantity(s_, c)), ("unit alone", lambda s_: ObtainQuantity(s_)), ("Quantity(category, unit)", lambda s_: Quantity(c, s_))):
                    o1, o2 = P.outcome(mk, leg), P.outcome(mk, u)
                    if o1[0] != "ok" or o2[0] != "ok":
                        ev.append({"op": "SameReq", "call": "%s: legacy spelling %s vs %s" % (how, leg, u), "eq": False, "ne": True, "hash1": 0, "hash2": 1,
                                   "desc1": str(o1[1:]), "desc2": str(o2[1:])})
                        continue
                    a, b = o1[1], o2[1]
                    ev.append({"op": "SameReq", "call": "%s: legacy spelling %s vs %s" % (how, leg, u), "eq": bool(a == b) and len({a, b}) == 1, "ne": bool(a != b),
                               "hash1": hash(a), "hash2": hash(b), "desc1": desc(a) + repr(a.GetComposingUnitsJoiningExponents()), "desc2": desc(b) + repr(b.GetComposingUnitsJoiningExponents())})
                    sa = P.outcome(lambda: (Scalar(a, 2.0) * Scalar(a, 3.0)).GetUnit())
                    sb = P.outcome(lambda: (Scalar(b, 2.0) * Scalar(b, 3.0)).GetUnit())
                    ev.append({"op": "SameReq", "call": "%s: square of a value in legacy spelling %s vs %s" % (how, leg, u), "eq": sa == sb and sa[0] == "ok", "ne": sa != sb,
                               "hash1": 0, "hash2": 0, "desc1": "", "desc2": ""})
    # a long history without any registration: every unit of the table and many captions are requested (thousands of live cached quantities),
    # new derived quantities arise from arithmetic, then the early requests are repeated - the identical objects come back
    held = []
    for u_ in list(db.unit_to_unit_info):
        if db.GetDefaultCategory(u_):
            held.append(("unit %s" % u_, (lambda u_=u_: ObtainQuantity(u_)), ObtainQuantity(u_)))
    for k_ in range(700):
        held.append(("caption #%d" % k_, (lambda k_=k_: ObtainQuantity("<unknown>", "Unknown", "curve %d" % k_)), ObtainQuantity("<unknown>", "Unknown", "curve %d" % k_)))
    units_ = [h_[2].GetUnit() for h_ in held[:1400:7]]
    for k_ in range(60):
        a_, b_ = rng.choice(units_), rng.choice(units_)
        P.outcome(lambda: Scalar(2.0, a_) * Scalar(3.0, b_) / Scalar(5.0, rng.choice(units_)))
    again = held if thorough else held[:40] + rng.sample(held, 300)
    miss = [(n_, q_, fn_()) for n_, fn_, q_ in again]
    miss += [(n_, q_, fn_()) for (n_, q_), (_n2, fn_) in zip(made, requests)]
    nbad = 0
    for n_, q_, q2_ in miss:
        if q2_ is not q_ and nbad < 20:
            nbad += 1
            ev.append({"op": "Intern", "call": "after a long history of requests: " + n_, "id1": id(q_), "id2": id(q2_), "desc1": desc(q_), "desc2": desc(q2_), "hash1": hash(q_), "hash2": hash(q2_)})
    ev.append({"op": "Intern", "call": "after a long history of requests: %d early requests repeated, %d returned another object" % (len(miss), sum(1 for _n, a_, b_ in miss if a_ is not b_)),
               "id1": 0, "id2": sum(1 for _n, a_, b_ in miss if a_ is not b_), "desc1": "", "desc2": "", "hash1": 0, "hash2": 0})
    for name, m_, us_, cs_ in pairs_forms:
        a, b = ObtainQuantity(m_), ObtainQuantity(us_, cs_)
        ev.append({"op": "SameReq", "call": name, "eq": bool(a == b), "ne": bool(a != b), "hash1": hash(a), "hash2": hash(b), "desc1": desc(a), "desc2": desc(b)})
        # ... and both are usable alike: a sum with the same quantity written in another unit of the first factor
        other = OrderedDict((c, [("cm" if u == "m" else "m" if u in ("cm", "km") else u), e]) for c, (u, e) in m_.items())
        ra = P.outcome(lambda: (Scalar(a, 1.0) + Scalar(ObtainQuantity(other), 2.0)).GetValue())
        rb = P.outcome(lambda: (Scalar(b, 1.0) + Scalar(ObtainQuantity(other), 2.0)).GetValue())
        ev.append({"op": "SameReq", "call": name + ": a sum on each", "eq": ra == rb and ra[0] == "ok", "ne": ra != rb, "hash1": 0, "hash2": 0, "desc1": str(ra[1:]), "desc2": str(rb[1:]) if ra == rb else str(ra[1:])})
    # the category-only request form with a caption: the same resolution as naming the category's default unit with that caption, and a
    # different one from any other caption / no caption
    for c_ in ("Unknown", "length", "temperature"):
        du_ = db.GetDefaultUnit(c_)
        a = ObtainQuantity(None, c_, "API units")
        for name, b, same in (("the default unit named", ObtainQuantity(du_, c_, "API units"), True), ("another caption", ObtainQuantity(None, c_, "other units"), False),
                              ("no caption", ObtainQuantity(None, c_), False), ("the default unit named, no caption", ObtainQuantity(du_, c_), False)):
            ev.append({"op": "SameReq" if same else "DiffReq", "call": "category only %s with a caption vs %s" % (c_, name), "eq": bool(a == b), "ne": bool(a != b),
                       "hash1": hash(a), "hash2": hash(b), "desc1": desc(a), "desc2": desc(b)})
    # the copy requests that name a composing map (MakeCopy / CreateCopyInstance): no map is the quantity itself, the empty map is the empty
    # quantity, any other map is the quantity that map resolves to - whatever quantity the request is made on; the source is left as it was
    for sname, src in (("simple m", ObtainQuantity("m", "length")), ("derived m/s", ObtainQuantity(OrderedDict([("length", ["m", 1]), ("time", ["s", -1])]))),
                       ("empty", Quantity.CreateEmpty())):
        snap = qalg.q_snapshot(src)
        for mname in ("MakeCopy", "CreateCopyInstance"):
            fn = getattr(src, mname)
            for tname, arg, want in (("no map", None, src), ("the empty map", OrderedDict(), Quantity.CreateEmpty()),
                                     ("the map cm2", OrderedDict([("length", ["cm", 2])]), ObtainQuantity(OrderedDict([("length", ["cm", 2])]))),
                                     ("the map kg.s", OrderedDict([("mass", ["kg", 1]), ("time", ["s", 1])]), ObtainQuantity(OrderedDict([("mass", ["kg", 1]), ("time", ["s", 1])])))):
                o = P.outcome(lambda: fn() if arg is None else fn(arg))
                got = o[1] if o[0] == "ok" else None
                ev.append({"op": "SameReq", "call": "%s.%s(%s) vs the quantity that map resolves to" % (sname, mname, tname), "eq": got is not None and bool(got == want) and (arg is not None or got is src),
                           "ne": got is None or bool(got != want), "hash1": hash(got) if got is not None else 0, "hash2": hash(want), "desc1": desc(got) if got is not None else str(o[1:]), "desc2": desc(want)})
        ev.append({"op": "Frozen", "call": "%s after the copy requests" % sname, "pre": repr(snap), "post": repr(qalg.q_snapshot(src))})
    # a pickle loaded after a registration emptied the database's quantity cache; a quantity built directly from an ordered map and never cached
    cold = [ObtainQuantity(OrderedDict([("time", ["s", 1]), ("length", ["m", 1])])), ObtainQuantity(OrderedDict([("length", ["m", 1]), ("time", ["s", -1])])),
            ObtainQuantity(OrderedDict([("length", ["cm", 2])])), ObtainQuantity("m", "length"), ObtainQuantity("<unknown>", "Unknown", "a caption"),
            Quantity(OrderedDict([("mass", ["kg", 1]), ("length", ["m", -3])]), None)]
    for q in cold:
        data = pickle.dumps(q)
        db.AddCategory("verif scratch", "length", override=True)
        q3 = pickle.loads(data)
        ev.append({"op": "QPickle", "call": "pickle of %s loaded after a registration" % desc(q), "eq": bool(q3 == q) and not bool(q3 != q), "hash1": hash(q), "hash2": hash(q3), "desc1": desc(q), "desc2": desc(q3)})
        ev.append({"op": "SameReq", "call": "the loaded quantity finds the original as a dict key", "eq": {q: 1}.get(q3) == 1, "ne": False, "hash1": 0, "hash2": 0, "desc1": "", "desc2": ""})
    # a derived quantity owns its composing map: the caller goes on using (and changing) the map and the lists it passed
    for builder_name, builder in (("Quantity.CreateDerived", Quantity.CreateDerived), ("ObtainQuantity", ObtainQuantity)):
        work = OrderedDict([("depth", ["km", 2]), ("time", ["min", -1])])
        q_a = builder(work)
        before = qalg.q_snapshot(q_a)
        work["depth"][1] = 3
        work["time"][0] = "s"
        q_b = builder(work)
        work["mass"] = ["kg", 1]
        ev.append({"op": "Frozen", "call": "%s(map): the caller changed its map afterwards" % builder_name, "pre": repr(before), "post": repr(qalg.q_snapshot(q_a)), "changed": ""})
        ev.append({"op": "DiffReq", "call": "%s(map) before and after the caller changed the map" % builder_name, "eq": bool(q_a == q_b), "ne": bool(q_a != q_b), "hash1": hash(q_a), "hash2": hash(q_b),
                   "desc1": repr(qalg.q_snapshot(q_a)[:2]), "desc2": repr(qalg.q_snapshot(q_b)[:2])})
    # composing maps with the same factors in another order (same rendered strings, different maps): unequal quantities
    for (c1, u1), (c2, u2) in (((("length", "m")), ("time", "s")), (("depth", "km"), ("length", "m")), (("mass", "kg"), ("temperature", "K"))):
        for e1, e2 in ((1, -1), (2, -1), (1, 1)):
            a = ObtainQuantity(OrderedDict([(c1, [u1, e1]), (c2, [u2, e2])]))
            b = ObtainQuantity(OrderedDict([(c2, [u2, e2]), (c1, [u1, e1])]))
            ev.append({"op": "DiffReq", "call": "map %s%d.%s%d vs the same factors in the other order" % (u1, e1, u2, e2), "eq": bool(a == b), "ne": bool(a != b),
                       "hash1": hash(a), "hash2": hash(b), "desc1": repr(qalg.q_snapshot(a)[:2]), "desc2": repr(qalg.q_snapshot(b)[:2])})
            sa, sb = Scalar(a, 1.0), Scalar(b, 1.0)
            ev.append({"op": "DiffReq", "call": "Scalars on map %s%d.%s%d vs the other order" % (u1, e1, u2, e2), "eq": bool(sa == sb), "ne": bool(sa != sb),
                       "hash1": 0, "hash2": 0, "desc1": repr(qalg.q_snapshot(a)[:2]), "desc2": repr(qalg.q_snapshot(b)[:2])})
    # a derived request with a caption against the same composing map without it (in both request orders)
    for (c1, u1), (c2, u2) in ((("length", "m"), ("time", "min")), (("mass", "kg"), ("depth", "km"))):
        for first in ("plain", "caption"):
            m_ = lambda: OrderedDict([(c1, [u1, 2]), (c2, [u2, -1 if first == "plain" else -3])])
            qs = [ObtainQuantity(m_()), ObtainQuantity(m_(), None, "flux")] if first == "plain" else [ObtainQuantity(m_(), None, "flux"), ObtainQuantity(m_())]
            a, b = qs
            ev.append({"op": "DiffReq", "call": "derived %s2/%s with and without caption (%s first)" % (u1, u2, first), "eq": bool(a == b), "ne": bool(a != b),
                       "hash1": hash(a), "hash2": hash(b), "desc1": repr(qalg.q_snapshot(a)[:2]), "desc2": repr(qalg.q_snapshot(b)[:2])})
    # equal / different resolutions
    for i in range(0, len(made) - 1):
        (n1, a), (n2, b) = made[i], made[(i * 7 + 3) % len(made)]
        same = qalg.q_snapshot(a)[:2] == qalg.q_snapshot(b)[:2]
        ev.append({"op": "SameReq" if same else "DiffReq", "call": n1 + " vs " + n2, "eq": bool(a == b), "ne": bool(a != b),
                   "hash1": hash(a), "hash2": hash(b), "desc1": desc(a), "desc2": desc(b)})
    # a seeded history of mixed operations; every quantity ever seen is re-projected after every step
    seen = {id(q): (q, qalg.q_snapshot(q)) for _n, q in made}
    scal = [Scalar(q, float(k + 2)) for k, (_n, q) in enumerate(made[:60])]
    nsteps = 3000 if thorough else 600
    for step in range(nsteps):
        a, b = rng.choice(scal), rng.choice(scal)
        k = rng.randrange(9)
        name = ["add", "sub", "mul", "div", "lt", "getvalue", "copy", "array-add", "pow"][k]
        try:
            if k == 0:
                r = a + b
            elif k == 1:
                r = a - b
            elif k == 2:
                r = a * b
            elif k == 3:
                r = a / b
            elif k == 4:
                r = a < b
            elif k == 5:
                r = a.GetValue(b.GetUnit())
            elif k == 6:
                r = a.CreateCopy(unit=b.GetUnit())
            elif k == 7:
                r = Array(a.GetQuantity(), [1.0, 2.0]) + Array(b.GetQuantity(), [3.0, 4.0])
            else:
                r = a ** 2
            if hasattr(r, "GetQuantity") and len(scal) < 400 and type(r).__name__ == "Scalar":
                if all(abs(e) <= 3 for _c, (_u, e) in r.GetQuantity().GetCategoryToUnitAndExps().items()):
                    scal.append(r)
                q = r.GetQuantity()
                seen.setdefault(id(q), (q, qalg.q_snapshot(q)))
        except (UnitsError, TypeError, ValueError, ZeroDivisionError):
            pass
        for q in list(db.quantities_cache.values())[:50]:
            seen.setdefault(id(q), (q, qalg.q_snapshot(q)))
        changed = [s0 for q, s0 in seen.values() if qalg.q_snapshot(q) != s0]
        ev.append({"op": "Frozen", "call": "%s after %d steps" % (name, step), "pre": len(seen), "post": len(seen) - len(changed),
                   "changed": repr(changed[:2])})
    return ev


def main(tier):
    rep, bd, env, stats = qalg.run("C07", tier, "all", "")
    rng = random.Random(common.seed() + 7)
    ev = events_for(env, rng, tier == "thorough")
    common.judge_trace(rep, bd, ev, "quantity requests, copies, pickles, mutators and a monitored history on the real database")
    return qalg.finish(rep, env, rule="(a) every sampled transition of the quantity-algebra machine replayed with the cached-quantity monitor, "
                       "pairwise ==/hash vs composing map, copies identical, pickles equal; (b) request forms x atoms (simple, derived, two "
                       "categories of one type, empty, unknown caption) and a seeded monitored history validated by TLC")
