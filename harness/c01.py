"""C01 - unit conversion is invertible, path-independent and monotone for every unit pair.

 (1) ConvAlgebra.tla: TLC model-checks the conversion walk over coefficient grids (lemmas) and shows
     the negative control (a unit whose two records differ) breaks conservation.
 (2) W2: every row of the three shipped databases is judged by TLC (RowRefines); every ordered unit
     pair is swept through UnitDatabase.Convert and the measurements are judged by TLC (MC_C01).
 (3) W1 on real rows: ConvAlgebra in MODE=real walks the exact-rational rows exported from the code;
     every transition TLC generates is replayed through UnitDatabase.Convert.
"""
import json
import math
import os
import random
import zlib

from . import common, export, project as P

VALUES = [-1e9, -12345.678, -1.0, -1e-6, 0.0, 1e-6, 0.1, 1.0, 2.5, 1e9]
MAXI = 2 ** 31 - 1


def ppt(dev, scale):
    if scale == 0:
        return 0 if dev == 0 else MAXI
    r = dev / scale * 1e12
    if r != r or r > MAXI:
        return MAXI
    return int(round(r))


def behaves(info):
    tb, fb = info.tobase, info.frombase
    if not hasattr(tb, "__a__") or not hasattr(fb, "__a__"):
        return True
    a, b, c, d = (getattr(tb, "__%s__" % k) for k in "abcd")
    a2, b2, c2, d2 = (getattr(fb, "__%s__" % k) for k in "abcd")
    for p in export.PROBES:
        try:
            if tb(p) != (a + b * p) / (c + d * p):
                return False
            if fb(p) != (a2 - c2 * p) / (d2 * p - b2):
                return False
        except ZeroDivisionError:
            return False
    return True


def sweep(db, dbname, proj, events, rng, thorough, rep, light=False):
    """Measure every ordered unit pair of every quantity type through UnitDatabase.Convert (floats).

    light: only pairs with the base unit and u -> u (used for the second POSC build in the quick tier)."""
    byqt = {}
    for r in proj["rows"]:
        byqt.setdefault(r["qt"], []).append(r["unit"])
    conv = db.Convert
    npairs = 0
    for qt, units in byqt.items():
        base = units[0]
        vals = {}
        near = {}
        zero_of = {}  # (u, w) -> |value in w of zero u|
        for u in units:
            z = conv(qt, base, u, 0.0)
            # values at and next to the unit's own image of the base zero (affine offsets)
            # ... and amounts a few hundred ulps apart right at that image (where a "clean-up" of tiny results would merge distinct amounts)
            near[u] = [] if z == 0 else [z * (1.0 + k_ * 1e-13) for k_ in (-3, -2, -1, 1, 2, 3)]
            vals[u] = sorted(set(VALUES + ([] if z == 0 else [z, z - 1.0, z + 1.0, -z]) + near[u]))
        has_offset = any(len(vals[u_]) > len(VALUES) for u_ in units)
        pairs = [(u, w) for u in units for w in units if not light or u == w or u == base or w == base]
        cats_by_qt, dcat = {}, {}
        for ci_ in proj.get("cats", []):
            cats_by_qt.setdefault(ci_["qt"], []).append(ci_["cat"])
            dcat[ci_["cat"]] = db.GetDefaultUnit(ci_["cat"])
        # a history before the measurements: the 'Unknown' quantity type accepts any unit labels (by design) and returns the value
        # unchanged; asking it for one direction of some pairs must not influence the conversions of the real quantity type
        if "Unknown" in byqt and qt != "Unknown":
            for u, w in pairs:
                if u < w:
                    try:
                        conv("Unknown", u, w, 1.0)
                    except Exception:  # noqa
                        pass
        fw = {}
        for u, w in pairs:
            fw[(u, w)] = [conv(qt, u, w, x) for x in vals[u]]
            zero_of[(u, w)] = abs(conv(qt, u, w, 0.0))
        for u, w in pairs:
            vals_u = vals[u]
            ys = fw[(u, w)]
            same_exact = True
            if u == w:
                same_exact = all(y == x and math.copysign(1, y) == math.copysign(1, x) for x, y in zip(vals_u, ys))
                # ... for every kind of value the conversion accepts (list, tuple, numpy array)
                import numpy
                arr = numpy.array(vals_u)
                same_exact = (same_exact and list(conv(qt, u, u, list(vals_u))) == list(vals_u) and tuple(conv(qt, u, u, tuple(vals_u))) == tuple(vals_u)
                              and bool(numpy.array_equal(conv(qt, u, u, arr), arr)) and conv(qt, [(u, 1)], [(u, 1)], vals_u[1]) == vals_u[1])
            # every measured amount (zero and the offsets' images included) converts alike as a float, in a list, a tuple and a numpy array
            try:
                import numpy
                for cont_ in (list(vals_u), tuple(vals_u), numpy.array(vals_u)):
                    got_c = conv(qt, u, w, cont_)
                    if len(got_c) != len(ys) or any(ppt(abs(float(g_) - y_), max(abs(y_), zero_of[(u, w)])) > 1000 for g_, y_ in zip(got_c, ys)):
                        same_exact = False
            except Exception:  # noqa
                same_exact = False
            # whole numbers in a list / tuple convert like the floats (large amounts included)
            try:
                ints = [600000000, 3, -7, 0]
                li = conv(qt, u, w, list(ints))
                ti = conv(qt, u, w, tuple(ints))
                for k_, iv in enumerate(ints):
                    yf = conv(qt, u, w, float(iv))
                    for got_ in (li[k_], ti[k_]):
                        if ppt(abs(got_ - yf), max(abs(yf), zero_of[(u, w)])) > 1000:
                            same_exact = False
            except Exception:  # noqa
                same_exact = False
            # the same pair written as (unit, exponent 1) lists is the same conversion
            worst_spell = 0
            for x, y in zip(vals_u[::2], ys[::2]):
                try:
                    y2 = conv(qt, [(u, 1)], [(w, 1)], x)
                    worst_spell = max(worst_spell, ppt(abs(y2 - y), max(abs(y), zero_of[(u, w)])))
                except Exception:  # noqa
                    worst_spell = MAXI
            # round trip u -> w -> u, judged relative to everything that entered the computation, in u
            worst_rt = 0
            s0 = max(zero_of.get((w, u), 0.0), zero_of.get((base, u), 0.0))
            for x, y in zip(vals_u, ys):
                rt = conv(qt, w, u, y)
                worst_rt = max(worst_rt, ppt(abs(rt - x), max(abs(x), s0)))
            # strictly increasing: no two amounts are ever swapped, and the map is not constant
            inversions = sum(1 for i in range(len(ys) - 1) if ys[i] > ys[i + 1])
            # (amounts 1e-13 of the offset apart are hundreds of ulps apart: they must stay apart and in order)
            if near[u] and u != w:
                nys = [conv(qt, u, w, x_) for x_ in sorted(near[u] + [conv(qt, base, u, 0.0)])]
                inversions += sum(1 for i in range(len(nys) - 1) if nys[i] >= nys[i + 1])
            spans = ys[0] < ys[-1]
            # path independence u -> v -> w  vs  u -> w
            if light:
                pivots = [base]
            elif thorough:
                pivots = units
            else:
                pivots = [base] + ([rng.choice(units)] if len(units) > 2 else [])
            idx = range(len(vals_u)) if (thorough and len(units) <= 12) else range(1, len(vals_u), 3)
            worst_path = 0
            for v in pivots:
                if (u, v) not in fw or (v, w) not in zero_of:
                    continue
                s1 = max(zero_of[(u, w)], zero_of.get((base, w), 0.0), zero_of[(v, w)])
                mid = fw[(u, v)]
                for i in idx:
                    comp = conv(qt, v, w, mid[i])
                    worst_path = max(worst_path, ppt(abs(ys[i] - comp), max(abs(ys[i]), s1)))
            # the scalar path of a value object, for every category of the quantity type whose default unit is the target
            for c_ in cats_by_qt.get(qt, ()):
                if dcat.get(c_) == w and u != w:
                    try:
                        from barril.units import Scalar, UnitDatabase
                        UnitDatabase.PushSingleton(db)
                        try:
                            for x, y in list(zip(vals_u, ys))[1::3]:
                                g_ = Scalar(c_, x, u).GetValue(w)
                                if ppt(abs(g_ - y), max(abs(y), zero_of[(u, w)])) > 1000:
                                    same_exact = False
                        finally:
                            UnitDatabase.PopSingleton()
                    except Exception:  # noqa
                        same_exact = False
            # the quantity's own conversion of plain lists / tuples (Quantity.Convert) and an Array holding a list / tuple of tuples
            # ((min, max) pairs): the same amounts, and exactly the same ones when the target is the unit itself
            cs_ = cats_by_qt.get(qt, ())
            if cs_ and (u == w or has_offset or len(units) <= 12 or u == base or w == base or thorough or (zlib.crc32((u + '>' + w).encode()) % 5 == 0)):
                c_ = qt if qt in cs_ else cs_[0]
                try:
                    from barril.units import Array, ObtainQuantity, UnitDatabase
                    UnitDatabase.PushSingleton(db)
                    try:
                        q_ = ObtainQuantity(u, c_)
                        pairs_ = [tuple(vals_u[i_:i_ + 2]) for i_ in range(0, len(vals_u) - 1, 2)]
                        flat_ = [x_ for p_ in pairs_ for x_ in p_]
                        want_ = ys[:len(flat_)]
                        gots_ = [list(q_.Convert(list(vals_u), w)), list(q_.Convert(tuple(vals_u), w)),
                                 [x_ for p_ in Array(c_, list(pairs_), u).GetValues(w) for x_ in p_],
                                 [x_ for p_ in Array(c_, tuple(pairs_), u).GetValues(w) for x_ in p_]]
                        wants_ = [ys, ys, want_, want_]
                        # the public converter of fraction values with a quantity object of the type: the amount given in u comes back in w
                        from barril.basic.fraction import FractionValue
                        from barril.units import FractionScalar
                        qb_ = ObtainQuantity(base, c_)
                        fv_ = [float(FractionScalar.ConvertFractionValue(FractionValue(number=x_), qb_, u, w)) for x_ in vals_u[1::3]]
                        gots_.append(fv_)
                        wants_.append(ys[1::3])
                        for g_, w_ in zip(gots_, wants_):
                            if len(g_) != len(w_):
                                same_exact = False
                            elif u == w:
                                if any(not (a_ == b_) for a_, b_ in zip(g_, w_)):
                                    same_exact = False
                            elif any(ppt(abs(float(a_) - b_), max(abs(b_), zero_of[(u, w)])) > 1000 for a_, b_ in zip(g_, w_)):
                                same_exact = False
                    finally:
                        UnitDatabase.PopSingleton()
                except Exception:  # noqa
                    same_exact = False
            events.append({"op": "Pair", "db": dbname, "qt": qt, "u": u, "v": w, "rt_ppt": worst_rt,
                           "same_exact": same_exact, "inversions": inversions, "spans": spans,
                           "path_ppt": worst_path, "spell_ppt": worst_spell, "pivots": len(pivots), "nvals": len(vals_u)})
            npairs += 1
    return npairs


def exact_groups(proj, rng, thorough):
    """Quantity types whose rows have small exact rationals: the W1 tables for ConvAlgebra MODE=real."""
    byqt = {}
    for r in proj["rows"]:
        byqt.setdefault(r["qt"], []).append(r)
    groups = []
    lim = 100000
    for qt, rows in byqt.items():
        good = []
        for r in rows:
            if r["ident"] and r["pos"] == 1:
                good.append({"u": r["unit"], "tb": [[0, 1], [1, 1], [1, 1], [0, 1]], "fb": [[0, 1], [1, 1], [1, 1], [0, 1]]})
            elif r["tb_rat"] and all(abs(n) <= lim and d <= lim for n, d in r["tb_rat"]) and r["tb"] == r["fb"]:
                good.append({"u": r["unit"], "tb": r["tb_rat"], "fb": r["tb_rat"]})
        if len(good) >= 3 and rows[0]["ident"] and good[0]["u"] == rows[0]["unit"]:
            keep = [good[0]] + (good[1:] if len(good) <= 5 else rng.sample(good[1:], 4))
            groups.append({"qt": qt, "units": keep})
    rng.shuffle(groups)
    n = len(groups) if thorough else min(16, len(groups))
    must = [g for g in groups if g["qt"] in ("length", "temperature", "time", "pressure")]
    rest = [g for g in groups if g not in must]
    return (must + rest)[:max(n, len(must))]


def main(tier):
    from barril.units import UnitDatabase

    rep = common.Report("C01", tier)
    bd = common.build_dir("C01")
    thorough = tier == "thorough"
    rng = random.Random(common.seed())

    # ---- (1) lemmas on the coefficient grid + negative control ---------------------------------
    grid = "large" if thorough else "small"
    r = common.run_tlc("ConvAlgebra", "ConvAlgebra.cfg", bd, env={"MODE": "grid", "BROKEN": "0", "GRID": grid, "CONV_FILE": ""},
                       timeout=1800, workers=None if thorough else 6)
    rep.add_tlc("conversion walk over coefficient grid (%s)" % grid, r)
    if r.violated:
        rep.violation({"check": "ConvAlgebra grid", "invariant": r.violated[0]}, {"cex": common.tlc_counterexample(r.stdout, 40)})
    rb = common.run_tlc("ConvAlgebra", "ConvAlgebra.cfg", bd, env={"MODE": "grid", "BROKEN": "1", "GRID": "small", "CONV_FILE": ""},
                        allow_violation=True, coverage=False)
    if not rb.violated:
        raise common.MachineryError("negative control: a unit with differing to-base/from-base records was not detected by the model")
    rep.cov["negative_control"] = "table with differing tb/fb records violates %s (as expected)" % rb.violated[0]

    # ---- (2) the three shipped databases ----------------------------------------------------------
    events = []
    npairs = 0
    projs = {}
    for dbname in ("default", "posc_nocat", "simple"):
        db = export.build_db(dbname)
        proj = export.project_db(db)
        projs[dbname] = (db, proj)
        for row in proj["rows"]:
            ev = dict(row)
            ev.pop("tb_rat", None)
            ev["op"] = "Row"
            ev["db"] = dbname
            ev["behaves"] = behaves(db.unit_to_unit_info[row["unit"]])
            events.append(ev)
        npairs += sweep(db, dbname, proj, events, rng, thorough, rep, light=(dbname == "posc_nocat" and not thorough))
    trace = os.path.join(bd, "trace.ndjson")
    with open(trace, "w") as f:
        for ev in events:
            f.write(json.dumps(ev) + "\n")
    r2 = common.run_tlc("MC_C01", "MC_C01.cfg", bd, env={"TRACE_FILE": trace}, workers=1, timeout=1800)
    rep.add_tlc("judgement of %d row and pair records of the shipped databases" % len(events), r2)
    if r2.distinct != len(events) + 1:
        raise common.MachineryError("trace not consumed: %d states for %d events" % (r2.distinct, len(events)))
    for v in r2.tagged("VIOL"):
        ev = v["ev"]
        if ev["op"] == "Row":
            rep.violation({"check": "RowRefines", "db": ev["db"], "unit": ev["unit"]},
                          {"tb": ev["tb"], "fb": ev["fb"], "ident": ev["ident"], "behaves": ev["behaves"], "pos": ev["pos"]})
        else:
            rep.violation({"check": "Pair", "db": ev["db"], "u": ev["u"], "v": ev["v"]},
                          {k: ev[k] for k in ("rt_ppt", "same_exact", "inversions", "spans", "path_ppt", "spell_ppt")})
    rep.count(evaluations=len(events), nontrivial=npairs, traces=3)
    rep.sample(events[5])
    rep.sample(next(e for e in events if e["op"] == "Pair" and e["u"] != e["v"]))

    # ---- (3) exact real rows: TLC predicts, the code is replayed -------------------------------------
    db, proj = projs["default"]
    groups = exact_groups(proj, rng, thorough)
    starts = [[0, 1], [1, 1], [-3, 1], [5, 2], [100, 1], [1, 8]]
    conv_file = common.write_json(os.path.join(bd, "conv.json"), {"groups": groups, "starts": starts})
    r3 = common.run_tlc("ConvAlgebra", "ConvAlgebra.cfg", bd, env={"MODE": "real", "BROKEN": "0", "GRID": "small", "CONV_FILE": conv_file},
                        workers=1, timeout=1800)
    rep.add_tlc("conversion walk over %d real quantity types with exact rows (emits transitions)" % len(groups), r3)
    if r3.violated:
        rep.violation({"check": "ConvAlgebra real rows", "invariant": r3.violated[0]},
                      {"cex": common.tlc_counterexample(r3.stdout, 60)})
    qt_of = {row["unit"]: row["qt"] for row in proj["rows"]}
    trs = r3.tagged("TR")
    nrep = 0
    for t in trs:
        u, v = t["u"], t["v"]
        x = t["x"][0] / t["x"][1]
        want = t["out"][0] / t["out"][1]
        qt = qt_of[u]
        got = db.Convert(qt, u, v, x)
        zs = [abs(db.Convert(qt, t["base"], v, 0.0)), abs(db.Convert(qt, u, v, 0.0))]
        tol = 1e-9 * max(abs(want), *zs)
        nrep += 1
        if not abs(got - want) <= tol:
            rep.violation({"check": "replay Convert", "u": u, "v": v, "x": t["x"]}, {"predicted": t["out"], "observed": repr(got)})
    if not trs and not r3.violated:
        raise common.MachineryError("no transitions emitted by ConvAlgebra MODE=real")
    rep.count(evaluations=nrep, nontrivial=len(set((t["u"], t["v"]) for t in trs)), traces=nrep)
    rep.sample({"replayed_transition": trs[0] if trs else None})
    rep.cov["exhaustive"] = True
    rep.assumptions += [
        "float rounding is observed, not modelled: identities 'up to rounding' are judged with the 1000 ppt (1e-9) threshold "
        "defined in MC_C01.tla, relative to the magnitudes that entered the computation (value and unit offsets)",
        "value list per unit: %r plus the values at / next to each unit's offset" % VALUES,
        "quick tier: path independence through the base unit and two seeded pivots per pair; thorough: all pivots",
    ]
    return rep.finish(
        rule="every row of the three shipped databases (RowRefines), every ordered unit pair of every quantity type x value list "
             "(round trip, same-unit exactness, monotonicity, path independence); non-trivial = an ordered pair record; plus every "
             "TLC-generated conversion transition over exact real rows replayed through UnitDatabase.Convert",
        extra={"pairs": npairs, "rows": sum(len(p[1]["rows"]) for p in projs.values()), "replayed_transitions": nrep})
