"""C09 - plain numbers act as dimensionless operands and never strip the unit (spec/MC_C09.tla)."""
import json
import operator
import os

from . import common, export, project as P

FN = {"k*x": lambda k, x: k * x, "x*k": lambda k, x: x * k, "x/k": lambda k, x: x / k, "x//k": lambda k, x: x // k, "x+k": lambda k, x: x + k,
      "k+x": lambda k, x: k + x, "x-k": lambda k, x: x - k, "k-x": lambda k, x: k - x, "k/x": lambda k, x: k / x, "k//x": lambda k, x: k // x}


def main(tier):
    import numpy
    from barril.units import Array, FixedArray, ObtainQuantity, Scalar, UnitDatabase

    rep = common.Report("C09", tier)
    bd = common.build_dir("C09")
    out = os.path.join(bd, "gen.json")
    r = common.run_tlc("MC_C09", "MC_C09.cfg", bd, env={"OUT_FILE": out}, workers=1, coverage=False, tag="gen")
    rep.add_tlc("table: quantity x operator x number x amount -> resulting composing map and amount", r)
    g = json.load(open(out))
    db = export.build_db("default")
    UnitDatabase.PushSingleton(db)
    n = 0
    try:
        import collections

        class Samples(list):
            """a list subclass of the application holding the values"""

        NT = {n_: collections.namedtuple("Point%d" % n_, ["c%d" % i_ for i_ in range(n_)]) for n_ in range(1, 6)}

        def twounit_q():
            from collections import OrderedDict
            return ObtainQuantity(OrderedDict([("length", ["m", 1]), ("diameter", ["cm", 1])]))

        def mkscalar(qsel, v):
            if qsel == "captioned":
                return Scalar(ObtainQuantity("<unknown>", None, "Gamma API"), v)
            if qsel == "twounit":
                return Scalar(twounit_q(), v)
            if qsel == "pure":
                return Scalar(v, "-")
            if qsel == "simple":
                return Scalar(v, "m")
            if qsel == "derived":
                return Scalar(v, "m") / Scalar(1.0, "s")
            return Scalar(v, "cm") * Scalar(1.0, "cm")

        def mkarray(qsel, vs, kind):
            cont = {"list": list, "tuple": tuple, "ndarray": numpy.array, "intarray": lambda z: numpy.array(z),
                    "namedtuple": lambda z: NT[len(z)](*z), "list subclass": Samples}[kind](vs)
            if kind == "intarray":
                cont = numpy.array([int(v) for v in vs])
            one = {"list": [1.0] * len(vs), "tuple": (1.0,) * len(vs), "ndarray": numpy.ones(len(vs)), "intarray": numpy.ones(len(vs)),
                   "namedtuple": (1.0,) * len(vs), "list subclass": [1.0] * len(vs)}[kind]
            if qsel == "captioned":
                return Array(ObtainQuantity("<unknown>", None, "Gamma API"), cont)
            if qsel == "twounit":
                return Array(twounit_q(), cont)
            if qsel == "pure":
                return Array(cont, "-")
            if qsel == "simple":
                return Array(cont, "m")
            if qsel == "derived":
                return Array(cont, "m") / Array(one, "s")
            return Array(cont, "cm") * Array(one, "cm")

        def kinds_of(k):
            ks = [("float", float(k)), ("numpy.float64", numpy.float64(k))]
            if float(k) == int(k):
                ks += [("int", int(k)), ("numpy.int64", numpy.int64(int(k)))]
            return ks

        def check(obj_desc, res, row, want_vals, cls):
            diffs = []
            if type(res).__name__ != cls:
                return ["result is %s %r, expected a %s carrying a unit" % (type(res).__name__, res if not hasattr(res, "shape") else "ndarray", cls)]
            ents = [[c, u, e] for c, (u, e) in res.GetQuantity().GetCategoryToUnitAndExps().items()]
            want_q = [[e["c"], e["u"], e["e"]] for e in row["rq"]]
            phys = row["qsel"] == "twounit" and row["op"] == "k/x"      # compared by dimension and base-unit amount (the units may have been matched)
            if phys:
                def dim_and_factor(es):
                    dim, f = {}, 1.0
                    for c_, u_, e_ in es:
                        i_ = db.unit_to_unit_info[u_]
                        dim[i_.quantity_type] = dim.get(i_.quantity_type, 0) + e_
                        f *= (i_.tobase(1.0) - i_.tobase(0.0)) ** e_
                    return {k_: v_ for k_, v_ in dim.items() if v_}, f
                (d_o, f_o), (d_w, f_w) = dim_and_factor(ents), dim_and_factor(want_q)
                if d_o != d_w:
                    diffs.append("dimension predicted %r observed %r" % (d_w, d_o))
                want_vals = [w_ * f_w / f_o for w_ in want_vals]
            elif ents != want_q:
                diffs.append("composing map predicted %r observed %r" % (want_q, ents))
            if row["qsel"] == "captioned" and row["op"] not in ("k/x", "k//x") and res.GetQuantity().GetUnknownCaption() != "Gamma API":
                diffs.append("the result does not keep x's quantity: caption %r instead of 'Gamma API'" % res.GetQuantity().GetUnknownCaption())
            vals = [res.GetAbstractValue()] if cls == "Scalar" else list(res.GetAbstractValue())
            if len(vals) != len(want_vals) or any(not isinstance(a, (int, float, numpy.number)) or abs(float(a) - b) > 1e-9 * max(1.0, abs(b)) for a, b in zip(vals, want_vals)):
                diffs.append("values predicted %r observed %r" % (want_vals, vals))
            return diffs

        # group rows by (qsel, op, k) so that arrays can be built from the row values
        groups = {}
        for row in g["rows"]:
            groups.setdefault((row["qsel"], row["op"], json.dumps(row["k"])), []).append(row)
        for (qsel, op, kj), rows in groups.items():
            k = json.loads(kj)
            kval = k[0] / k[1]
            rows = sorted(rows, key=lambda r_: r_["v"][0] / r_["v"][1])
            vs = [r_["v"][0] / r_["v"][1] for r_ in rows]
            want = [r_["rv"][0] / r_["rv"][1] for r_ in rows]
            for kname, kobj in kinds_of(kval):
                for row, v, w in zip(rows, vs, want):
                    o = P.outcome(FN[op], kobj, mkscalar(qsel, v))
                    n += 1
                    d = ["raised %s" % o[2]] if o[0] != "ok" else check("Scalar", o[1], row, [w], "Scalar")
                    if d:
                        rep.violation({"check": "Scalar with a plain number", "op": op, "k": kname, "kvalue": kval, "quantity": qsel, "x": v}, {"diff": d})
                ivs = [v for v in vs if float(v) == int(v)]
                iwant = [w for v, w in zip(vs, want) if float(v) == int(v)]
                for kind in ("list", "tuple", "ndarray", "intarray", "namedtuple", "list subclass"):
                    xs_, ws_ = (ivs, iwant) if kind == "intarray" else (vs, want)
                    if len(xs_) < 2:
                        continue
                    for cls, mk in (("Array", lambda: mkarray(qsel, xs_, kind)), ("FixedArray", lambda: FixedArray(len(xs_), mkarray(qsel, xs_, kind).GetQuantity(), mkarray(qsel, xs_, kind).GetAbstractValue()))):
                        o = P.outcome(lambda: FN[op](kobj, mk()))
                        n += 1
                        d = ["raised %s" % o[2]] if o[0] != "ok" else check(cls, o[1], rows[0], ws_, cls)
                        if d:
                            rep.violation({"check": "%s with a plain number" % cls, "op": op, "k": kname, "kvalue": kval, "quantity": qsel, "container": kind}, {"diff": d, "xs": vs})
            # a numpy array as the plain operand (Arrays only): element i of k is kval for every i
            karrs = [numpy.array([kval] * len(vs)), numpy.ma.MaskedArray([kval] * len(vs)), numpy.array(float(kval))]      # ... and a zero-dimensional array     # (a masked array is an ndarray subclass with a high priority)
            if kval >= 0 and float(kval) == int(kval):
                karrs += [numpy.array([int(kval)] * len(vs), dtype=numpy.uint8), numpy.array([int(kval)] * len(vs), dtype=numpy.int32)]
            for karr in karrs:
              for kind in ("list", "tuple", "ndarray"):
                o = P.outcome(lambda: FN[op](karr, mkarray(qsel, vs, kind)))
                n += 1
                d = ["raised %s" % o[2]] if o[0] != "ok" else check("Array", o[1], rows[0], want, "Array")
                if d:
                    rep.violation({"check": "Array with a numpy array", "op": op, "kvalue": kval, "dtype": str(karr.dtype), "quantity": qsel, "container": kind}, {"diff": d, "xs": vs})
        # "applies the operation to the value(s)": for operands that are not exact in binary the value must be what Python's own
        # float operator gives on the raw numbers (6 // 0.1 is 59.0, not 60.0); recorded and validated by TLC (MC_Judge: Same)
        events = []
        import operator as _op
        PY = {"k*x": lambda k, v: k * v, "x*k": lambda k, v: v * k, "x/k": lambda k, v: v / k, "x//k": lambda k, v: v // k, "x+k": lambda k, v: v + k,
              "k+x": lambda k, v: k + v, "x-k": lambda k, v: v - k, "k-x": lambda k, v: k - v, "k/x": lambda k, v: k / v, "k//x": lambda k, v: k // v}
        for opn in PY:
            for kval in (6, 3.0, 0.9, 0.3):
                for v in (0.1, 0.3, 0.7, 1.1):
                    want = PY[opn](kval, v)
                    for qsel in ("simple", "derived"):
                        o = P.outcome(FN[opn], kval, mkscalar(qsel, v))
                        events.append({"op": "Same", "call": "Scalar %s k=%r x=%r %s" % (opn, kval, v, qsel), "a": repr(float(want)),
                                       "b": repr(float(o[1].GetValue())) if o[0] == "ok" and hasattr(o[1], "GetValue") else "raised/%s" % (o[2] if o[0] != "ok" else type(o[1]).__name__)})
                        for kind in ("list", "ndarray"):
                            o = P.outcome(lambda: FN[opn](kval, mkarray(qsel, [v, v], kind)))
                            events.append({"op": "Same", "call": "Array[%s] %s k=%r x=%r %s" % (kind, opn, kval, v, qsel), "a": repr([float(want)] * 2),
                                           "b": repr([float(z) for z in o[1].GetAbstractValue()]) if o[0] == "ok" and hasattr(o[1], "GetAbstractValue") else "raised/%s" % (o[2] if o[0] != "ok" else type(o[1]).__name__)})
        # two-dimensional values (rows of points) with a row / a column of plain factors: numpy's own broadcasting on the raw numbers, the unit kept
        raw2 = numpy.array([[1.0, 2.0, 3.0], [4.0, 5.0, 6.0]])
        for opn in PY:
            for kname, karr in (("row of 3", numpy.array([1.0, 10.0, 100.0])), ("column of 2", numpy.array([[2.0], [4.0]])), ("zero-dimensional", numpy.array(3.0))):
                want = PY[opn](karr, raw2)
                o = P.outcome(lambda: FN[opn](karr, Array(raw2.copy(), "m")))
                unit_want = "1/m" if opn in ("k/x", "k//x") else "m"
                events.append({"op": "Same", "call": "Array[2 x 3 ndarray] %s %s" % (opn, kname), "a": repr([want.tolist(), unit_want, "Array"]),
                               "b": repr([numpy.asarray(o[1].GetAbstractValue()).tolist(), o[1].GetUnit(), type(o[1]).__name__]) if o[0] == "ok" and hasattr(o[1], "GetAbstractValue") else "raised/%s" % (o[2] if o[0] != "ok" else type(o[1]).__name__)})
    finally:
        UnitDatabase.PopSingleton()
    common.judge_trace(rep, bd, events, "operands that are not exact in binary: the result is Python's own float operation on the raw numbers", key_of=lambda e: {"check": "float operator", "call": e["call"]})
    rep.count(evaluations=n, nontrivial=len(g["rows"]), traces=n)
    rep.sample({"table_row": g["rows"][len(g["rows"]) // 2]})
    rep.cov["exhaustive"] = True
    rep.assumptions += ["numbers 3, 0.5, -2, 0 and amounts 2, 4, -3, 2.5: exact in binary, so floor divisions have no rounding boundary",
                        "ndarray operands are combined with Arrays only; complex and bool are not generated (DESIGN 8)"]
    return rep.finish(rule="6 quantities (simple, derived, squared, dimensionless, captioned Unknown, one type in two units) x 10 operators (both operand orders) x 4 numbers x 4 amounts predicted by TLC; each row "
                           "instantiated with int / float / numpy.float64 / numpy.int64 numbers (single-precision numbers round by construction and are not generated), Scalar and Array / FixedArray in list / tuple / "
                           "float ndarray / integer ndarray containers, and a numpy array operand; class, composing map and values compared")
