"""The registry machine on the real code (op vocabulary of spec/Registry.tla, notes/op_vocabulary.md).

A RegWorld is a fresh UnitDatabase pushed as singleton.  call(op, a) performs one public call and
returns the outcome in the shape of RegOps!Out; project() is the abstraction function onto the
specification's variables (reg, memo, icache).  Nothing here predicts anything.
"""
import math

from . import project as P

NONE = "<none>"
PROBES = (0.0, 1.0, -1.0, 2.5, 1000.0)


def _opt(x):
    return None if x == NONE else x


def _num(rec):
    return float(rec["v"]) if rec["has"] else None


class RegWorld:
    def __init__(self, factors):
        from barril.units import UnitDatabase

        self.UnitDatabase = UnitDatabase
        self.db = UnitDatabase()
        UnitDatabase.PushSingleton(self.db)
        self.factors = factors  # unit -> (n, d)
        self.closed = False

    def close(self):
        if not self.closed:
            self.UnitDatabase.PopSingleton()
            self.closed = True

    # ------------------------------------------------------------------------------------ calls
    def call(self, op, a):
        from barril.units import ObtainQuantity, Scalar
        from barril.units.posc import MakeBaseToCustomary, MakeCustomaryToBase

        db = self.db
        out = {"k": "ok", "s": [], "t": "", "x": 0.0, "b": False}
        try:
            if op == "AddUnit":
                n, d = self.factors[a["u"]]
                db.AddUnit(a["qt"], "name of " + a["u"], a["u"], MakeBaseToCustomary(0.0, float(n), float(d), 0.0),
                           MakeCustomaryToBase(0.0, float(n), float(d), 0.0), default_category=_opt(a["dc"]))
            elif op == "AddUnitBad":
                db.AddUnit(a["qt"], "name of " + a["u"], a["u"], "1000.0", "0.001")        # expressions without the %f / x placeholder
            elif op == "CountUnits":
                out["x"] = float(len(db.GetUnits()))
            elif op == "AddUnitBase":
                db.AddUnitBase(a["qt"], "name of " + a["u"], a["u"])
            elif op == "AddCategory":
                kw = {}
                if a["qt"] != NONE:
                    kw["quantity_type"] = a["qt"]
                if a["valid"]["has"]:
                    kw["valid_units"] = list(a["valid"]["s"])  # a fresh list: the call may rewrite it in place
                if a["override"]:
                    kw["override"] = True
                if a["du"] != NONE:
                    kw["default_unit"] = a["du"]
                if a["dv"]["has"]:
                    kw["default_value"] = _num(a["dv"])
                if a["min"]["has"]:
                    kw["min_value"] = _num(a["min"])
                if a["max"]["has"]:
                    kw["max_value"] = _num(a["max"])
                if a["minx"]:
                    kw["is_min_exclusive"] = True
                if a["maxx"]:
                    kw["is_max_exclusive"] = True
                if a["from"] != NONE:
                    kw["from_category"] = a["from"]
                db.AddCategory(a["c"], **kw)
            elif op == "Clear":
                db.Clear()
            elif op == "CheckCategoryUnit":
                db.CheckCategoryUnit(a["c"], a["u"])
            elif op == "CheckQuantityTypeUnit":
                db.CheckQuantityTypeUnit(a["qt"], a["u"])
            elif op == "GetValidUnits":
                out["s"] = list(db.GetValidUnits(a["c"]))
            elif op == "GetDefaultUnit":
                out["t"] = db.GetDefaultUnit(a["c"])
            elif op == "GetDefaultValue":
                out["x"] = db.GetDefaultValue(a["c"])
            elif op == "GetBaseUnit":
                out["t"] = db.GetBaseUnit(a["qt"])
            elif op == "GetUnits":
                out["s"] = list(db.GetUnits(a["qt"]))
            elif op == "FindUnitCase":
                out["t"] = db.FindUnitCase(a["c"], a["u"])
            elif op == "GetQuantityType":
                out["t"] = db.GetQuantityType(a["u"]) or ""
            elif op == "GetDefaultCategory":
                out["t"] = db.GetDefaultCategory(a["u"]) or ""
            elif op == "Convert":
                out["x"] = db.Convert(a["q"], a["u"], a["v"], a["x"][0] / a["x"][1])
            elif op == "Obtain":
                q = ObtainQuantity(a["u"], _opt(a["c"]))
                out["s"] = [q.GetCategory(), q.GetUnit(), q.GetQuantityType()]
            elif op in ("Scalar", "ObjGetValidUnits"):
                form = a.get("form", "CU")
                if form == "C":
                    s = Scalar(a["c"])
                elif form == "CU":
                    s = Scalar(a["c"], None, a["u"])
                else:
                    s = Scalar(1.0, a["u"])
                if op == "Scalar":
                    out["s"] = [s.GetCategory(), s.GetUnit(), s.GetQuantityType()]
                    out["x"] = s.GetValue()
                    out["b"] = bool(s.IsValid())
                else:
                    out["s"] = list(s.GetValidUnits())
            else:
                raise KeyError("unknown op " + op)
        except Exception as e:  # noqa
            return {"k": P.exc_family(e), "s": [], "t": "", "x": 0.0, "b": False, "cls": type(e).__name__}
        return out

    # ------------------------------------------------------------------------------- projection
    def project(self):
        db = self.db
        order = {qt: [i.unit for i in infos] for qt, infos in db.quantity_types.items()}
        listed = {}
        for qt, infos in db.quantity_types.items():
            for i in infos:
                listed.setdefault(i.unit, []).append((qt, i))
        units = {}
        for u, info in db.unit_to_unit_info.items():
            units[u] = {"qt": info.quantity_type, "ident": _ident(info), "dc": info.default_category or NONE,
                        "f": _factor(info), "listed": [[qt, _factor(i), _ident(i)] for qt, i in listed.get(u, [])]}
        for u in listed:
            if u not in units:
                units[u] = {"qt": "<unmapped>", "ident": False, "dc": NONE, "f": None,
                            "listed": [[qt, _factor(i), _ident(i)] for qt, i in listed[u]]}
        cats = {}
        for c, ci in db.categories_to_quantity_types.items():
            cats[c] = {"qt": ci.quantity_type,
                       "valid": {"has": ci.valid_units is not None, "s": list(ci.valid_units or [])},
                       "du": ci.default_unit if ci.default_unit is not None else NONE, "dv": ci.default_value,
                       "min": {"has": ci.min_value is not None, "v": ci.min_value or 0},
                       "max": {"has": ci.max_value is not None, "v": ci.max_value or 0},
                       "minx": bool(ci.is_min_exclusive), "maxx": bool(ci.is_max_exclusive)}
        memo = sorted([c, u, bool(v)] for (c, u), v in getattr(db, "_category_unit_valid", {}).items())
        ic = []
        for key, q in getattr(db, "quantities_cache", {}).items():
            if isinstance(key, tuple) and len(key) == 3 and (key[0] is None or isinstance(key[0], str)) and isinstance(key[1], str):
                ic.append([key[0] if key[0] is not None else NONE, key[1], q.GetCategory(), q.GetUnit(), q.GetQuantityType()])
            else:
                ic.append(["<other>", repr(key), q.GetCategory(), q.GetUnit(), q.GetQuantityType()])
        return {"order": order, "units": units, "cats": cats, "memo": memo, "icache": sorted(ic)}

    def reg_digest(self):
        p = self.project()
        return (repr(sorted(p["order"].items())), repr(sorted((u, sorted(d.items(), key=str)) for u, d in p["units"].items())),
                repr(sorted((c, repr(d)) for c, d in p["cats"].items())))


def _ident(info):
    try:
        return all(info.tobase(p) == p and info.frombase(p) == p for p in PROBES)
    except Exception:
        return False


def _factor(info):
    try:
        return info.tobase(1.0) - info.tobase(0.0)
    except Exception:
        return None


# ---------------------------------------------------------------------------- comparison with the model
def rat(x):
    return x[0] / x[1]


def close(obs, want, scale=1.0):
    if obs is None or isinstance(obs, str):
        return False
    if math.isnan(obs) or math.isinf(obs):
        return False
    return abs(obs - want) <= 1e-9 * max(abs(want), scale)


def diff_outcome(pred, obs):
    """pred: RegOps!Out as JSON, obs: RegWorld.call result. Returns a list of differing fields."""
    d = []
    if pred["k"] != obs["k"]:
        return ["k: predicted %s observed %s%s" % (pred["k"], obs["k"], " (%s)" % obs["cls"] if "cls" in obs else "")]
    if pred["k"] != "ok":
        return d
    if list(pred["s"]) != list(obs["s"]):
        d.append("s: predicted %r observed %r" % (pred["s"], obs["s"]))
    if pred["t"] != obs["t"]:
        d.append("t: predicted %r observed %r" % (pred["t"], obs["t"]))
    if not close(obs["x"], rat(pred["x"])):
        d.append("x: predicted %r observed %r" % (pred["x"], obs["x"]))
    if bool(pred["b"]) != bool(obs["b"]):
        d.append("b: predicted %r observed %r" % (pred["b"], obs["b"]))
    return d


def _as_map(x):
    return x if isinstance(x, dict) else {}


def diff_state(model, proj, factors, check_caches=True):
    """model: {'reg':..., 'memo': [...], 'icache': [...]} from TLC; proj: RegWorld.project()."""
    d = []
    reg = model["reg"]
    order, units, cats = _as_map(reg["order"]), _as_map(reg["units"]), _as_map(reg["cats"])
    if {k: list(v) for k, v in order.items()} != proj["order"]:
        d.append("order: predicted %r observed %r" % (order, proj["order"]))
    if set(units) != set(proj["units"]):
        d.append("units: predicted %r observed %r" % (sorted(units), sorted(proj["units"])))
    for u in set(units) & set(proj["units"]):
        m, o = units[u], proj["units"][u]
        want = 1.0 if m["ident"] else factors[u][0] / factors[u][1]
        if m["qt"] != o["qt"] or bool(m["ident"]) != o["ident"] or m["dc"] != o["dc"] or not close(o["f"], want):
            d.append("unit %s: predicted %r factor %r observed %r" % (u, m, want, o))
        if len(o["listed"]) != 1 or o["listed"][0][0] != m["qt"] or not close(o["listed"][0][1], want) or o["listed"][0][2] != o["ident"]:
            d.append("unit %s: the quantity type's list and the unit map disagree: %r" % (u, o))
    if set(cats) != set(proj["cats"]):
        d.append("cats: predicted %r observed %r" % (sorted(cats), sorted(proj["cats"])))
    for c in set(cats) & set(proj["cats"]):
        m, o = cats[c], proj["cats"][c]
        same = (m["qt"] == o["qt"] and bool(m["valid"]["has"]) == o["valid"]["has"] and list(m["valid"]["s"]) == o["valid"]["s"]
                and m["du"] == o["du"] and close(o["dv"], m["dv"]) and bool(m["min"]["has"]) == o["min"]["has"]
                and bool(m["max"]["has"]) == o["max"]["has"] and (not m["min"]["has"] or close(o["min"]["v"], m["min"]["v"]))
                and (not m["max"]["has"] or close(o["max"]["v"], m["max"]["v"]))
                and bool(m["minx"]) == o["minx"] and bool(m["maxx"]) == o["maxx"])
        if not same:
            d.append("category %s: predicted %r observed %r" % (c, m, o))
    if check_caches:
        mm = sorted([e["c"], e["u"], bool(e["v"])] for e in model["memo"])
        if mm != proj["memo"]:
            d.append("memo: predicted %r observed %r" % (mm, proj["memo"]))
        mi = sorted([e["c"], e["u"], e["q"]["c"], e["q"]["u"], e["q"]["qt"]] for e in model["icache"])
        if mi != proj["icache"]:
            d.append("icache: predicted %r observed %r" % (mi, proj["icache"]))
    return d
