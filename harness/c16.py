"""C16 - legacy unit spellings are exact aliases and never capture current units.

TLC (spec/MC_C16.tla + UnitGrammar.tla) owns the rewrite semantics: it computes the closure
properties on the exported table, generates every legacy spelling and the adversarial strings.
The harness runs every API entry with the legacy and the current spelling on the real code,
records one event per call pair, and TLC validates the recorded trace.
"""
import json
import os

from . import common, export, project as P


def _entries(db, qt_of, base_of, defcat_of, thorough):
    """API entries taking a unit string: name -> fn(unit_string, u_current) -> projected outcome."""
    from barril.units import Array, FixedArray, FractionScalar, ObtainQuantity, Scalar

    def cat(u):
        return defcat_of[u]

    def foreign(u):
        return "m" if qt_of[u] != "length" else "s"

    E = {
        "ObtainQuantity(u)": lambda s, u: P.outcome(ObtainQuantity, s),
        "ObtainQuantity(u,cat)": lambda s, u: P.outcome(ObtainQuantity, s, cat(u)),
        "Scalar(v,u)": lambda s, u: P.outcome(Scalar, 1.5, s),
        "Scalar(v,u,cat)": lambda s, u: P.outcome(Scalar, 1.5, s, cat(u)),
        "Scalar(cat,v,u)": lambda s, u: P.outcome(Scalar, cat(u), 1.5, s),
        "Scalar((v,u))": lambda s, u: P.outcome(Scalar, (1.5, s)),
        "Array(vs,u)": lambda s, u: P.outcome(Array, [1.5, 2.0], s),
        "Array(cat,vs,u)": lambda s, u: P.outcome(Array, cat(u), (1.5, 2.0), s),
        "FixedArray(2,vs,u)": lambda s, u: P.outcome(FixedArray, 2, [1.5, 2.0], s),
        "FractionScalar(cat,v,u)": lambda s, u: P.outcome(lambda: FractionScalar(cat(u), value=1.5, unit=s)),
        "CreateCopy(unit=u)": lambda s, u: P.outcome(lambda: Scalar(cat(u), 2.5, base_of[qt_of[u]]).CreateCopy(unit=s)),
        "Array.CreateCopy(unit=u)": lambda s, u: P.outcome(
            lambda: Array(cat(u), [2.5, 1.0], base_of[qt_of[u]]).CreateCopy(unit=s)),
        "GetValue(u)": lambda s, u: P.outcome(lambda: Scalar(cat(u), 2.5, base_of[qt_of[u]]).GetValue(s)),
        "GetValues(u)": lambda s, u: P.outcome(lambda: Array(cat(u), [2.5, 1.0], base_of[qt_of[u]]).GetValues(s)),
        "Convert(qt,u,base,x)": lambda s, u: P.outcome(db.Convert, qt_of[u], s, base_of[qt_of[u]], 2.5),
        "Convert(qt,base,u,x)": lambda s, u: P.outcome(db.Convert, qt_of[u], base_of[qt_of[u]], s, 2.5),
        "Convert(qt,u,u,x) same spelling on both sides": lambda s, u: P.outcome(db.Convert, qt_of[u], s, s, 2.5),
        "Convert(cat,u,u,list) same spelling on both sides": lambda s, u: P.outcome(db.Convert, cat(u), s, s, [2.5, 1.0]),
        "Convert(cat,u,base,list)": lambda s, u: P.outcome(db.Convert, cat(u), s, base_of[qt_of[u]], [2.5, 1.0]),
        "GetDefaultCategory(u)": lambda s, u: P.outcome(db.GetDefaultCategory, s),
        "GetInfo(qt,u).unit": lambda s, u: P.outcome(lambda: db.GetInfo(qt_of[u], s).unit),
        "Quantity.Convert(u)": lambda s, u: P.outcome(
            lambda: ObtainQuantity(base_of[qt_of[u]], cat(u)).ConvertScalarValue(2.5, s)),
        # the same (category, spelling) again through doors that do not go through the cache of ObtainQuantity(u, cat) above
        "Quantity(cat,u) built directly": lambda s, u: P.outcome(lambda: __import__("barril.units").units.Quantity(cat(u), s)),
        "ObtainQuantity(u,cat,caption)": lambda s, u: P.outcome(ObtainQuantity, s, cat(u), "a caption"),
        "Scalar(v,u,cat) again": lambda s, u: P.outcome(Scalar, 1.5, s, cat(u)),
        # an exact alias is also refused wherever the current spelling is refused: values of ANOTHER quantity type asked for this unit
        "foreign Scalar.GetValue(u)": lambda s, u: P.outcome(lambda: Scalar(1.0, foreign(u)).GetValue(s)),
        "foreign Array.GetValues(u)": lambda s, u: P.outcome(lambda: Array([1.0, 2.0], foreign(u)).GetValues(s)),
        "foreign Convert(qt', v, u, x)": lambda s, u: P.outcome(lambda: db.Convert(qt_of[foreign(u)], foreign(u), s, 2.5)),
        "foreign Convert(qt', u, v, x)": lambda s, u: P.outcome(lambda: db.Convert(qt_of[foreign(u)], s, foreign(u), 2.5)),
        "foreign FractionScalar.GetValue(u)": lambda s, u: P.outcome(lambda: FractionScalar(cat(foreign(u)), value=1.5, unit=foreign(u)).GetValue(s)),
        "foreign ObtainQuantity(u, cat')": lambda s, u: P.outcome(ObtainQuantity, s, cat(foreign(u))),
        "Convert(qt,u,base,FractionValue) as a number": lambda s, u: P.outcome(
            lambda: float(db.Convert(qt_of[u], s, base_of[qt_of[u]], __import__("barril.basic.fraction").basic.fraction.FractionValue(3, (1, 2))))),
        "Convert(qt,base,u,FractionValue) as a number": lambda s, u: P.outcome(
            lambda: float(db.Convert(qt_of[u], base_of[qt_of[u]], s, __import__("barril.basic.fraction").basic.fraction.FractionValue(3, (1, 2))))),
        "FractionScalar.GetValue(u)": lambda s, u: P.outcome(lambda: float(FractionScalar(cat(u), value=2.5, unit=base_of[qt_of[u]]).GetValue(s))),
        "FractionScalar.CreateCopy(unit=u)": lambda s, u: P.outcome(lambda: FractionScalar(cat(u), value=2.5, unit=base_of[qt_of[u]]).CreateCopy(unit=s)),
    }
    return E


def main(tier):
    from barril.units import UnitDatabase
    from barril.units.unit_database import FixUnitIfIsLegacy

    rep = common.Report("C16", tier)
    bd = common.build_dir("C16")
    thorough = tier == "thorough"

    table = os.path.join(bd, "table.json")
    db, proj = export.export("default", table)
    UnitDatabase.PushSingleton(db)
    try:
        gen_out = os.path.join(bd, "gen.json")
        r1 = common.run_tlc("MC_C16", "MC_C16.cfg", bd, env={"MODE": "gen", "TABLE_FILE": table, "OUT_FILE": gen_out,
                                                            "TRACE_FILE": ""}, workers=1)
        rep.add_tlc("closure properties of the rewrite over the exported table (gen)", r1)
        g = json.load(open(gen_out))
        for name in ("captured", "notback", "nonidem", "shadow"):
            for w in g[name]:
                rep.violation({"check": name, "witness": w}, {"what": {
                    "captured": "a current table symbol is rewritten by the legacy substitution list",
                    "notback": "a legacy spelling is not rewritten to the unit it was derived from",
                    "nonidem": "rewriting a legacy spelling is not idempotent",
                    "shadow": "a legacy spelling is itself a current symbol"}[name]})
        spellings = sorted(map(tuple, g["spellings"]))
        adversarial = sorted(g["adversarial"])
        rep.count(evaluations=len(proj["rows"]) + 3 * len(spellings), nontrivial=len(spellings))

        qt_of = {r["unit"]: r["qt"] for r in proj["rows"]}
        base_of = {}
        for r in proj["rows"]:
            if r["pos"] == 1:
                base_of[r["qt"]] = r["unit"]
        defcat_of = {}
        for r in proj["rows"]:
            defcat_of[r["unit"]] = db.GetDefaultCategory(r["unit"]) or r["qt"]

        # ---- events from the real code -----------------------------------------------------
        events = []
        inputs = [r["unit"] for r in proj["rows"]] + [s for s, _ in spellings] + adversarial
        for s in inputs:
            changed, fixed = FixUnitIfIsLegacy(s)
            events.append({"op": "Fix", "input": s, "output": fixed, "changed": bool(changed)})
        E = _entries(db, qt_of, base_of, defcat_of, thorough)
        for s, u in spellings:
            for name, fn in E.items():
                a = json.dumps(P.out_proj(fn(s, u)), sort_keys=True)
                b = json.dumps(P.out_proj(fn(u, u)), sort_keys=True)
                events.append({"op": "AliasRefused" if name.startswith("foreign") else "Alias", "entry": name, "s": s, "u": u, "legacy": a, "current": b,
                               "ok": a.startswith('{"ok"')})
        # the same doors in another order of calls, on a second freshly built database: the look-ups (unit name, unit info, default category,
        # conversions) come before the first value is ever created with the spelling
        db_b = export.build_db("default")
        UnitDatabase.PushSingleton(db_b)
        try:
            E_b = _entries(db_b, qt_of, base_of, defcat_of, thorough)
            order_b = [("GetUnitName(qt,u)", lambda s, u: P.outcome(db_b.GetUnitName, qt_of[u], s))] + list(reversed(list(E_b.items())))
            for s, u in spellings:
                for name, fn in order_b:
                    a = json.dumps(P.out_proj(fn(s, u)), sort_keys=True)
                    b = json.dumps(P.out_proj(fn(u, u)), sort_keys=True)
                    events.append({"op": "AliasRefused" if name.startswith("foreign") else "Alias", "entry": name + " (look-ups first)", "s": s, "u": u, "legacy": a, "current": b,
                                   "ok": a.startswith('{"ok"')})
        finally:
            UnitDatabase.PopSingleton()
        # category registration with legacy spellings, on a fresh database (registration mutates)
        db2 = export.build_db("default")
        UnitDatabase.PushSingleton(db2)
        try:
            for k, (s, u) in enumerate(spellings):
                def reg(x):
                    o = P.outcome(db2.AddCategory, "verif tmp", qt_of[u], valid_units=[x, base_of[qt_of[u]]],
                                  default_unit=x, override=True)
                    if o[0] != "ok":
                        return P.out_proj(o)
                    return {"valid": db2.GetValidUnits("verif tmp"), "du": db2.GetDefaultUnit("verif tmp"),
                            "scalar": P.out_proj(P.outcome(lambda: __import__("barril.units").units.Scalar("verif tmp")))}
                a = json.dumps(reg(s), sort_keys=True)
                b = json.dumps(reg(u), sort_keys=True)
                events.append({"op": "Alias", "entry": "AddCategory(valid_units=[u],default_unit=u)", "s": s, "u": u,
                               "legacy": a, "current": b, "ok": '"valid"' in a})

                # the spelling first in the valid units, the base unit not among them, no explicit default unit
                def reg2(x):
                    o = P.outcome(db2.AddCategory, "verif tmp2", qt_of[u], valid_units=[x], override=True)
                    if o[0] != "ok":
                        return P.out_proj(o)
                    du = db2.GetDefaultUnit("verif tmp2")
                    return {"valid": db2.GetValidUnits("verif tmp2"), "du": du, "du_is_table_unit": du in qt_of,
                            "check": P.out_proj(P.outcome(db2.CheckCategoryUnit, "verif tmp2", du)),
                            "scalar": P.out_proj(P.outcome(lambda: __import__("barril.units").units.Scalar("verif tmp2")))}
                a = json.dumps(reg2(s), sort_keys=True)
                b = json.dumps(reg2(u), sort_keys=True)
                events.append({"op": "Alias", "entry": "AddCategory(valid_units=[u]) without default unit", "s": s, "u": u,
                               "legacy": a, "current": b, "ok": '"valid"' in a})
        finally:
            UnitDatabase.PopSingleton()
        trace = os.path.join(bd, "trace.ndjson")
        with open(trace, "w") as f:
            for ev in events:
                f.write(json.dumps(ev) + "\n")

        r2 = common.run_tlc("MC_C16", "MC_C16.cfg", bd, env={"MODE": "judge", "TABLE_FILE": table, "OUT_FILE": gen_out,
                                                            "TRACE_FILE": trace}, workers=1)
        rep.add_tlc("trace validation of recorded FixUnitIfIsLegacy / alias events (judge)", r2)
        if r2.distinct != len(events) + 1:
            raise common.MachineryError("trace not consumed: %d states for %d events" % (r2.distinct, len(events)))
        for v in r2.tagged("VIOL"):
            ev = v["ev"]
            if ev["op"] == "Fix":
                rep.violation({"check": "FixLegacy", "input": ev["input"]}, {"observed": ev["output"]})
            else:
                rep.violation({"check": "alias", "entry": ev["entry"], "spelling": ev["s"], "unit": ev["u"]},
                              {"legacy": ev["legacy"][:300], "current": ev["current"][:300]})
        rep.count(evaluations=len(events), nontrivial=len(spellings) * (len(E) + 1) + len(adversarial), traces=1)
        rep.sample({"spelling": spellings[0] if spellings else None, "entries": list(E.keys())[:5]})
        rep.sample({"event": events[len(inputs)] if len(events) > len(inputs) else None})
        rep.sample({"adversarial": adversarial[:8]})
        rep.cov["exhaustive"] = True
        rep.assumptions += [
            "TLC's ReplaceAllSubSeqs (left-to-right, non-overlapping) is the model of str.replace; bound to the code by "
            "the Fix events on all %d symbols, %d spellings and %d adversarial strings" % (
                len(proj["rows"]), len(spellings), len(adversarial)),
            "legacy spellings are those obtained by replacing one or all occurrences of one current fragment",
        ]
        return rep.finish(
            rule="exhaustive over the exported table: every symbol (NoCapture), every legacy spelling generated by TLC "
                 "by inverse substitution x every API entry taking a unit string; a case is non-trivial when the "
                 "spelling differs from the current symbol",
            extra={"spellings": len(spellings), "api_entries": len(E) + 1, "events": len(events)})
    finally:
        UnitDatabase.PopSingleton()
