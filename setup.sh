#!/bin/sh
# Offline setup: nothing to build (TLA+ specs are interpreted by TLC, the harness is plain Python run by /venv/bin/python).
# Verifies the tools the checks need are present and parses every specification module once.
cd "$(dirname "$0")" || exit 1
command -v java >/dev/null || { echo "java missing"; exit 1; }
[ -f /opt/veriftools/tla/tla2tools.jar ] || { echo "tla2tools.jar missing"; exit 1; }
/venv/bin/python -c "import numpy, sys; sys.path.insert(0, '/repo/src'); import barril" || exit 1
mkdir -p build evidence replays
rc=0
for f in spec/*.tla; do
  m=$(basename "$f" .tla)
  (cd spec && java -cp /opt/veriftools/tla/tla2tools.jar:/opt/veriftools/tla/CommunityModules-deps.jar tla2sany.SANY "$m.tla" > ../build/sany-$m.out 2>&1)
  if grep -q "^Semantic errors\|\*\*\* Errors\|Fatal errors\|Could not\|Parse Error" build/sany-$m.out; then echo "SANY failed for $m"; rc=1; fi
done
exit $rc
